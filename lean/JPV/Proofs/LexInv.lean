/-
`Proofs.LexInv` — the scanners never match more than their input; the lexer invariant
`Lexer.Inv` (`start ≤ pos ≤ |q|`, tokens and open brackets positioned inside the text) is kept by
every helper and state function; what `tokenize` guarantees (`tokenize_spec`).
-/
import JPV.Impl.Parse
namespace JPV.Impl
open JPV

theorem orElse_some {a : Option Nat} {b : Unit → Option Nat} {k : Nat} (h : a.orElse b = some k) :
    a = some k ∨ b () = some k := by
  cases a <;> simp_all

theorem spanLen_le (p : Char → Bool) (s : List Char) : spanLen p s ≤ s.length := by
  induction s with
  | nil => simp [spanLen]
  | cons c cs ih => simp only [spanLen]; split <;> simp <;> omega

/-- a scanner never matches more than its input -/
def ScanBounded (re : List Char → Option Nat) : Prop := ∀ s k, re s = some k → k ≤ s.length

theorem reWhitespace_bounded : ScanBounded reWhitespace := by
  intro s k h
  simp only [reWhitespace] at h
  split at h <;> simp at h
  subst h; exact spanLen_le _ _

theorem reProperty_bounded : ScanBounded reProperty := by
  intro s k h
  unfold reProperty at h
  split at h
  · split at h <;> simp at h
    subst h; have := spanLen_le isNameChar ‹_›; simp; omega
  · simp at h

theorem reFunctionName_bounded : ScanBounded reFunctionName := by
  intro s k h
  unfold reFunctionName at h
  split at h
  · split at h <;> simp at h
    subst h; have := spanLen_le (fun c => isLower c || c = '_' || isDigit c) ‹_›; simp; omega
  · simp at h

/-- a keyword match is the keyword, and it is a prefix of the input -/
theorem reKeyword_some {kw inp : List Char} {n : Nat} (h : reKeyword kw inp = some n) :
    n = kw.length ∧ kw.isPrefixOf inp = true := by
  unfold reKeyword at h
  split at h
  · rename_i hp
    split at h
    · split at h
      · cases h
      · cases h; exact ⟨rfl, hp⟩
    · cases h; exact ⟨rfl, hp⟩
  · cases h

theorem reKeyword_bounded (kw : List Char) : ScanBounded (reKeyword kw) := by
  intro s k h
  obtain ⟨rfl, hp⟩ := reKeyword_some h
  exact (List.isPrefixOf_iff_prefix.mp hp).length_le

/-- the keyword reading is rejected before a function-name character or `(` -/
theorem reKeyword_none_of_follow {kw inp : List Char} {c : Char} {r : List Char}
    (hd : inp.drop kw.length = c :: r)
    (hc : (isLower c || c = '_' || isDigit c || c = '(') = true) : reKeyword kw inp = none := by
  unfold reKeyword
  split
  · rw [hd]; simp only [hc, if_true]
  · rfl

/-- the keyword reading is accepted when the keyword is followed by another character -/
theorem reKeyword_some_of_follow {kw inp : List Char} {c : Char} {r : List Char}
    (hp : kw.isPrefixOf inp = true) (hd : inp.drop kw.length = c :: r)
    (hc : (isLower c || c = '_' || isDigit c || c = '(') = false) : reKeyword kw inp = some kw.length := by
  unfold reKeyword
  rw [if_pos hp, hd]; simp only [hc]; rfl

theorem reKeyword_some_of_end {kw inp : List Char}
    (hp : kw.isPrefixOf inp = true) (hd : inp.drop kw.length = []) : reKeyword kw inp = some kw.length := by
  unfold reKeyword
  rw [if_pos hp, hd]

theorem reKeyword_none_of_not_prefix {kw inp : List Char}
    (hp : kw.isPrefixOf inp = false) : reKeyword kw inp = none := by
  unfold reKeyword
  simp [hp]

theorem reSignedDigits_bounded : ScanBounded reSignedDigits := by
  intro s k h
  unfold reSignedDigits at h
  split at h
  rename_i sign r heq
  simp only at h
  split at h <;> simp at h
  subst h
  have := spanLen_le isDigit r
  split at heq <;> simp at heq <;> obtain ⟨rfl, rfl⟩ := heq <;> simp <;> omega

theorem reIndex_bounded : ScanBounded reIndex := reSignedDigits_bounded


theorem length_of_drop_eq_cons {s : List Char} {n : Nat} {c : Char} {r : List Char}
    (h : s.drop n = c :: r) : n + 1 + r.length = s.length := by
  have := congrArg List.length h
  simp at this; omega

theorem reInt_bounded : ScanBounded reInt := by
  intro s k h
  unfold reInt at h
  split at h
  · simp at h
  · rename_i n hn
    have hn' := reSignedDigits_bounded s n hn
    split at h
    · rename_i e r hd
      have hl := length_of_drop_eq_cons hd
      split at h
      · split at h
        rename_i plus r' heq
        have := spanLen_le isDigit r'
        simp only at h
        split at h <;> simp at h <;> subst h
        · exact hn'
        · split at heq <;> simp at heq <;> obtain ⟨rfl, rfl⟩ := heq <;> simp at * <;> omega
      · simp at h; omega
    · simp at h; omega

theorem reExpOpt_le (s : List Char) : reExpOpt s ≤ s.length := by
  unfold reExpOpt
  split
  · split
    · split
      rename_i sg r' heq
      have := spanLen_le isDigit r'
      simp only
      split
      · omega
      · split at heq <;> simp at heq <;> obtain ⟨rfl, rfl⟩ := heq <;> simp only [List.length_cons]
        all_goals (generalize spanLen isDigit _ = d at *)
        all_goals (rename_i hh _)
        all_goals (rw [Nat.add_comm]; omega)
    · omega
  · simp

/-- the body shared by the two attempts of `reFloatAlt1` (with / without the optional colon) -/
def floatTry (colon : Nat) (r : List Char) : Option Nat :=
  match reSignedDigits r with
  | none => none
  | some n =>
    match r.drop n with
    | '.' :: r2 =>
      let d := spanLen isDigit r2
      if d = 0 then none else some (colon + n + 1 + d + reExpOpt (r2.drop d))
    | _ => none

theorem reFloatAlt1_eq (s : List Char) : reFloatAlt1 s =
    match s with
    | ':' :: r => (floatTry 1 r).orElse (fun _ => floatTry 0 s)
    | _ => floatTry 0 s := rfl

theorem floatTry_bounded (colon : Nat) (r : List Char) (k : Nat)
    (h : floatTry colon r = some k) : k ≤ colon + r.length := by
  unfold floatTry at h
  split at h
  · simp at h
  · rename_i n hn
    split at h
    · rename_i r2 hd
      have hl := length_of_drop_eq_cons hd
      simp only at h
      split at h <;> simp at h
      subst h
      have h1 := spanLen_le isDigit r2
      have h2 := reExpOpt_le (r2.drop (spanLen isDigit r2))
      simp at h2
      omega
    · simp at h

theorem reFloatAlt1_bounded : ScanBounded reFloatAlt1 := by
  intro s k h
  rw [reFloatAlt1_eq] at h
  split at h
  · rename_i r
    rcases orElse_some h with h | h
    · have := floatTry_bounded 1 r k h; simp; omega
    · have := floatTry_bounded 0 _ k h; simp at this; simpa using this
  · have := floatTry_bounded 0 _ k h; simpa using this

theorem reFloatAlt2_bounded : ScanBounded reFloatAlt2 := by
  intro s k h
  unfold reFloatAlt2 at h
  split at h
  · simp at h
  · rename_i n hn
    split at h
    · rename_i e r hd
      have hl := length_of_drop_eq_cons hd
      have := spanLen_le isDigit r
      split at h
      · simp only at h
        split at h <;> simp at h
        subst h; simp at hl; omega
      · simp at h
    · simp at h

theorem reFloat_bounded : ScanBounded reFloat := by
  intro s k h
  unfold reFloat at h
  rcases orElse_some h with h | h
  · exact reFloatAlt1_bounded s k h
  · exact reFloatAlt2_bounded s k h


/-! ### the lexer invariant -/

/-- token `t` is positioned inside a text of length `n` -/
def TokOK (n : Nat) (t : Token) : Prop := 0 ≤ t.index ∧ t.index ≤ (n : Int)

/-- an error that carries a token positioned inside a text of length `n` -/
def LexErrOK (n : Nat) (e : Err) : Prop := ∃ t, e.tok = some t ∧ TokOK n t

namespace Lexer

/-- `start ≤ pos ≤ |q| = n`; every emitted token and every open bracket is positioned in `[0, n]` -/
structure Inv (n : Nat) (l : Lexer) : Prop where
  size : l.q.size = n
  start_le : l.start ≤ l.pos
  pos_le : l.pos ≤ n
  toks : ∀ t ∈ l.toks, TokOK n t
  brackets : ∀ b ∈ l.brackets, b.2 ≤ n

/-- the lexer after `next()` -/
def adv (l : Lexer) : Lexer := l.next.2

theorem next_eq (l : Lexer) : l.next = (l.peek, l.adv) := by
  unfold adv next peek; split <;> rfl

variable {n : Nat} {l : Lexer}

theorem Inv.errTok (h : Inv n l) : TokOK n l.errTok := by
  have := h.pos_le; simp [TokOK, Lexer.errTok]; omega

theorem Inv.emit (h : Inv n l) (k : TokKind) : Inv n (l.emit k) := by
  have h1 := h.start_le; have h2 := h.pos_le
  refine ⟨h.size, Nat.le_refl _, h.pos_le, ?_, h.brackets⟩
  intro t ht
  simp only [Lexer.emit, List.mem_cons] at ht
  rcases ht with rfl | ht
  · simp [TokOK]; omega
  · exact h.toks t ht

theorem Inv.error (h : Inv n l) : Inv n l.error := by
  have h1 := h.start_le; have h2 := h.pos_le
  refine ⟨h.size, h.start_le, h.pos_le, ?_, h.brackets⟩
  intro t ht
  simp only [Lexer.error, List.mem_cons] at ht
  rcases ht with rfl | ht
  · simp [TokOK]; omega
  · exact h.toks t ht

theorem Inv.adv (h : Inv n l) : Inv n l.adv := by
  have h0 := h.size; have h1 := h.start_le; have h2 := h.pos_le
  unfold Lexer.adv Lexer.next
  split
  · exact ⟨h.size, by simp; omega, by simp; omega, h.toks, h.brackets⟩
  · exact h

theorem Inv.ignore (h : Inv n l) : Inv n l.ignore :=
  ⟨h.size, Nat.le_refl _, h.pos_le, h.toks, h.brackets⟩

theorem Inv.pushBracket (h : Inv n l) (c : Char) {i : Nat} (hi : i ≤ l.pos) : Inv n (l.pushBracket c i) := by
  refine ⟨h.size, h.start_le, h.pos_le, h.toks, ?_⟩
  intro b hb
  simp only [Lexer.pushBracket, List.mem_cons] at hb
  rcases hb with rfl | hb
  · have := h.pos_le; simp; omega
  · exact h.brackets b hb

theorem Inv.popBracket (h : Inv n l) {b : Char × Nat} {rest : List (Char × Nat)} (hb : l.brackets = b :: rest) :
    Inv n { l with brackets := rest } :=
  ⟨h.size, h.start_le, h.pos_le, h.toks, fun x hx => h.brackets x (by simp [hb, hx])⟩

theorem Inv.setFilterDepth (h : Inv n l) (d : Int) : Inv n { l with filterDepth := d } :=
  ⟨h.size, h.start_le, h.pos_le, h.toks, h.brackets⟩

theorem Inv.setFuncStack (h : Inv n l) (s : List Nat) : Inv n { l with funcStack := s } :=
  ⟨h.size, h.start_le, h.pos_le, h.toks, h.brackets⟩

theorem Inv.backup_ok (h : Inv n l) {l' : Lexer} (hb : l.backup = .ok l') : Inv n l' := by
  have h1 := h.start_le; have h2 := h.pos_le
  unfold Lexer.backup at hb
  split at hb
  · cases hb
  · cases hb
    exact ⟨h.size, by simp; omega, by simp; omega, h.toks, h.brackets⟩

theorem Inv.backup_err (h : Inv n l) {e : Err} (hb : l.backup = .error e) : LexErrOK n e := by
  unfold Lexer.backup at hb
  split at hb
  · cases hb; exact ⟨_, rfl, h.errTok⟩
  · cases hb

theorem restFrom_length (h : Inv n l) : l.restFrom.length = n - l.pos := by
  have := h.size
  simp [Lexer.restFrom, this]

theorem Inv.accept (h : Inv n l) {s : List Char} {l' : Lexer} (ha : l.accept s = some l') : Inv n l' := by
  have h1 := h.start_le; have h2 := h.pos_le
  unfold Lexer.accept at ha
  split at ha
  · rename_i hp
    cases ha
    have := (List.isPrefixOf_iff_prefix.mp hp).length_le
    rw [restFrom_length h] at this
    exact ⟨h.size, by simp; omega, by simp; omega, h.toks, h.brackets⟩
  · cases ha

theorem Inv.acceptMatch (h : Inv n l) {re : List Char → Option Nat} (hre : ScanBounded re) {l' : Lexer}
    (ha : l.acceptMatch re = some l') : Inv n l' := by
  have h1 := h.start_le; have h2 := h.pos_le
  unfold Lexer.acceptMatch at ha
  cases hr : re l.restFrom with
  | none => simp [hr] at ha
  | some k =>
    simp [hr] at ha
    subst ha
    have := hre _ _ hr
    rw [restFrom_length h] at this
    exact ⟨h.size, by simp; omega, by simp; omega, h.toks, h.brackets⟩

theorem Inv.ignoreWhitespace_ok (h : Inv n l) {b : Bool} {l' : Lexer}
    (hw : l.ignoreWhitespace = .ok (b, l')) : Inv n l' := by
  unfold Lexer.ignoreWhitespace at hw
  split at hw
  · cases hw
  · split at hw
    · cases hw; exact (h.acceptMatch reWhitespace_bounded ‹_›).ignore
    · cases hw; exact h

theorem Inv.ignoreWhitespace_err (h : Inv n l) {e : Err}
    (hw : l.ignoreWhitespace = .error e) : LexErrOK n e := by
  unfold Lexer.ignoreWhitespace at hw
  split at hw
  · cases hw; exact ⟨_, rfl, h.errTok⟩
  · split at hw <;> cases hw

end Lexer


/-! ### the state functions preserve the invariant -/

/-- the newest token is an ERROR or EOF token: the only ways a state function returns `None` -/
def Lexer.Stopped (l : Lexer) : Prop := ∃ t ts, l.toks = t :: ts ∧ (t.kind = .error ∨ t.kind = .eof)

/-- outcome of one state-function call, started from a lexer satisfying `Inv n` -/
def StepOK (n : Nat) : StepResult → Prop
  | .ok (l', st) => Lexer.Inv n l' ∧ (st = none → l'.Stopped)
  | .error e => LexErrOK n e

section
variable {n : Nat} {l : Lexer}

theorem StepOK.goto (h : Lexer.Inv n l) (s : LState) : StepOK n (goto l s) :=
  ⟨h, fun h => by cases h⟩

theorem StepOK.stop_error (h : Lexer.Inv n l) : StepOK n (stop l.error) :=
  ⟨h.error, fun _ => ⟨_, _, rfl, .inl rfl⟩⟩

theorem StepOK.stop_eof (h : Lexer.Inv n l) : StepOK n (stop (l.emit .eof)) :=
  ⟨h.emit _, fun _ => ⟨_, _, rfl, .inr rfl⟩⟩

theorem StepOK.bind_backup (h : Lexer.Inv n l) {f : Lexer → StepResult}
    (hf : ∀ l', Lexer.Inv n l' → StepOK n (f l')) : StepOK n (l.backup >>= f) := by
  cases hb : l.backup with
  | error e => exact h.backup_err hb
  | ok l' => exact hf l' (h.backup_ok hb)

theorem StepOK.bind_ws (h : Lexer.Inv n l) {f : Bool × Lexer → StepResult}
    (hf : ∀ b l', Lexer.Inv n l' → StepOK n (f (b, l'))) : StepOK n (l.ignoreWhitespace >>= f) := by
  cases hb : l.ignoreWhitespace with
  | error e => exact h.ignoreWhitespace_err hb
  | ok x => obtain ⟨b, l'⟩ := x; exact hf b l' (h.ignoreWhitespace_ok hb)

end

theorem Lexer.Inv.of_accept {n : Nat} {l l' : Lexer} {s : List Char} (ha : l.accept s = some l')
    (h : Lexer.Inv n l) : Lexer.Inv n l' := h.accept ha

theorem Lexer.Inv.of_acceptMatch {n : Nat} {l l' : Lexer} {re : List Char → Option Nat}
    (ha : l.acceptMatch re = some l') (hre : ScanBounded re) (h : Lexer.Inv n l) : Lexer.Inv n l' :=
  h.acceptMatch hre ha

/-- discharge `Lexer.Inv n _` goals built from the helper methods -/
macro "lex_inv" : tactic => `(tactic|
  repeat' (first
    | assumption
    | apply Lexer.Inv.emit | apply Lexer.Inv.error | apply Lexer.Inv.adv | apply Lexer.Inv.ignore
    | exact reWhitespace_bounded | exact reProperty_bounded | exact reIndex_bounded
    | exact reInt_bounded | exact reFloat_bounded | exact reFunctionName_bounded
    | exact reKeyword_bounded _
    | refine Lexer.Inv.pushBracket ?_ _ (by first | exact Nat.le_refl _ | exact Nat.sub_le _ _)
    | refine Lexer.Inv.of_accept (by assumption) ?_
    | refine Lexer.Inv.of_acceptMatch (by assumption) ?_ ?_
    | refine Lexer.Inv.popBracket ?_ (by assumption)
    | apply Lexer.Inv.setFilterDepth | apply Lexer.Inv.setFuncStack))

/-- walk through a state function -/
macro "lex_step" : tactic => `(tactic|
  repeat' (first
    | (apply StepOK.goto; lex_inv; done)
    | (apply StepOK.stop_error; lex_inv; done)
    | (apply StepOK.stop_eof; lex_inv; done)
    | (refine StepOK.bind_backup (by lex_inv; done) ?_; intro _ _)
    | (refine StepOK.bind_ws (by lex_inv; done) ?_; intro _ _ _; dsimp only)
    | split))

theorem lexRoot_ok {n : Nat} {l : Lexer} (h : Lexer.Inv n l) : StepOK n (lexRoot l) := by
  unfold lexRoot
  simp only [Lexer.next_eq]
  lex_step

theorem lexSegment_ok {n : Nat} {l : Lexer} (h : Lexer.Inv n l) : StepOK n (lexSegment l) := by
  unfold lexSegment
  simp only [Lexer.next_eq]
  lex_step

theorem lexDescendant_ok {n : Nat} {l : Lexer} (h : Lexer.Inv n l) : StepOK n (lexDescendant l) := by
  unfold lexDescendant
  simp only [Lexer.next_eq]
  lex_step

theorem lexShorthand_ok {n : Nat} {l : Lexer} (h : Lexer.Inv n l) : StepOK n (lexShorthand l) := by
  unfold lexShorthand
  simp only [Lexer.next_eq]
  lex_step

theorem lexBracketed_ok {n : Nat} {l : Lexer} (h : Lexer.Inv n l) : StepOK n (lexBracketed l) := by
  unfold lexBracketed
  simp only [Lexer.next_eq]
  lex_step

theorem lexFilterDefault_ok {n : Nat} {l : Lexer} (h : Lexer.Inv n l) : StepOK n (lexFilterDefault l) := by
  unfold lexFilterDefault
  simp only [Lexer.next_eq]
  lex_step

theorem lexFilter_ok {n : Nat} {l : Lexer} (h : Lexer.Inv n l) : StepOK n (lexFilter l) := by
  unfold lexFilter
  simp only [Lexer.next_eq]
  lex_step
  exact lexFilterDefault_ok ‹_›

theorem lexStrStart_ok {n : Nat} {l : Lexer} (q : Char) (f : Bool) (h : Lexer.Inv n l) :
    StepOK n (lexStrStart q f l) := by
  unfold lexStrStart
  simp only [Lexer.next_eq]
  lex_step

theorem lexStrLoop_ok {n : Nat} {l : Lexer} (q : Char) (f : Bool) (h : Lexer.Inv n l) :
    StepOK n (lexStrLoop q f l) := by
  unfold lexStrLoop
  simp only [Lexer.next_eq]
  lex_step


theorem step_ok {n : Nat} {l : Lexer} (s : LState) (h : Lexer.Inv n l) : StepOK n (step s l) := by
  cases s with
  | root => exact lexRoot_ok h
  | segment => exact lexSegment_ok h
  | descendant => exact lexDescendant_ok h
  | shorthand => exact lexShorthand_ok h
  | bracketed => exact lexBracketed_ok h
  | filter => exact lexFilter_ok h
  | strStart q f => exact lexStrStart_ok q f h
  | strLoop q f => exact lexStrLoop_ok q f h

/-- an error is acceptable if, whenever it is a `JSONPathError`, it carries an in-range token -/
def ErrOK (n : Nat) (e : Err) : Prop := e.kind.isJSONPathError = true → LexErrOK n e

theorem LexErrOK.errOK {n : Nat} {e : Err} (h : LexErrOK n e) : ErrOK n e := fun _ => h

theorem run_ok {n : Nat} : ∀ (fuel : Nat) (s : LState) (l : Lexer), Lexer.Inv n l →
    match run fuel s l with
    | .ok l' => Lexer.Inv n l' ∧ l'.Stopped
    | .error e => ErrOK n e := by
  intro fuel
  induction fuel with
  | zero => intro s l _; simp [run, ErrOK, ErrKind.isJSONPathError]
  | succ fuel ih =>
    intro s l h
    have hs := step_ok s h
    cases he : step s l with
    | error e => rw [he] at hs; simp only [run, he]; exact hs.errOK
    | ok x =>
      obtain ⟨l', st⟩ := x
      rw [he] at hs
      cases st with
      | none => simp only [run, he]; exact ⟨hs.1, hs.2 rfl⟩
      | some s' => simp only [run, he]; exact ih s' l' hs.1

theorem Lexer.Inv.init (s : Str) : Lexer.Inv s.length { q := s.toArray } :=
  ⟨by simp, Nat.le_refl _, Nat.zero_le _, by simp, by simp⟩

/-- what `tokenize` guarantees -/
theorem tokenize_spec (s : Str) :
    match tokenize s with
    | .ok toks => (∀ t ∈ toks, TokOK s.length t) ∧ ∃ t, toks.getLast? = some t ∧ t.kind = .eof
    | .error e => ErrOK s.length e := by
  have hr := run_ok (lexFuel s.length) .root _ (Lexer.Inv.init s)
  unfold tokenize
  cases hrun : run (lexFuel s.length) .root { q := s.toArray } with
  | error e => rw [hrun] at hr; exact hr
  | ok l =>
    rw [hrun] at hr
    obtain ⟨hinv, t, ts, htoks, hk⟩ := hr
    simp only [bind, Except.bind, htoks]
    have ht : TokOK s.length t := hinv.toks t (by simp [htoks])
    by_cases hte : t.kind = .error
    · simp only [hte, if_true, throw, throwThe, MonadExceptOf.throw]
      exact LexErrOK.errOK ⟨t, rfl, ht⟩
    · have hke : t.kind = .eof := hk.resolve_left hte
      simp only [hte, if_false]
      cases hb : l.brackets with
      | cons b bs =>
        obtain ⟨c, i⟩ := b
        simp only [throw, throwThe, MonadExceptOf.throw]
        have := hinv.brackets (c, i) (by simp [hb])
        refine LexErrOK.errOK ⟨_, rfl, ?_⟩
        simp [TokOK]; simpa using this
      | nil =>
        simp only [pure, Except.pure]
        refine ⟨?_, t, ?_, hke⟩
        · intro t' ht'
          exact hinv.toks t' (by simp [htoks] at ht' ⊢; exact ht'.symm)
        · simp

end JPV.Impl
