import JPV.Props.Common
namespace JPV.Proofs
open JPV

/-! ### `rangeLen` recurrences -/

theorem rangeLen_up_step {i u st : Int} (hst : 0 < st) (h : i < u) :
    Py.rangeLen i u st = Py.rangeLen (i + st) u st + 1 := by
  unfold Py.rangeLen
  rw [if_pos hst, if_pos hst, if_pos h]
  by_cases h2 : i + st < u
  · rw [if_pos h2]
    have e1 : (u - i - 1) / st = (u - (i + st) - 1) / st + 1 := by
      have : u - i - 1 = (u - (i + st) - 1) + 1 * st := by omega
      rw [this, Int.add_mul_ediv_right _ _ (by omega)]
    have hn : 0 ≤ (u - (i + st) - 1) / st := Int.ediv_nonneg (by omega) (by omega)
    omega
  · rw [if_neg h2]
    have : (u - i - 1) / st = 0 := Int.ediv_eq_zero_of_lt (by omega) (by omega)
    rw [this]; rfl

theorem rangeLen_up_stop {i u st : Int} (hst : 0 < st) (h : ¬ i < u) :
    Py.rangeLen i u st = 0 := by
  unfold Py.rangeLen
  rw [if_pos hst, if_neg h]

theorem rangeLen_down_step {i l st : Int} (hst : st < 0) (h : l < i) :
    Py.rangeLen i l st = Py.rangeLen (i + st) l st + 1 := by
  unfold Py.rangeLen
  have hns : ¬ st > 0 := by omega
  rw [if_neg hns, if_neg hns, if_pos h]
  by_cases h2 : l < i + st
  · rw [if_pos h2]
    have e1 : (i - l - 1) / (-st) = (i + st - l - 1) / (-st) + 1 := by
      have : i - l - 1 = (i + st - l - 1) + 1 * (-st) := by omega
      rw [this, Int.add_mul_ediv_right _ _ (by omega)]
    have hn : 0 ≤ (i + st - l - 1) / (-st) := Int.ediv_nonneg (by omega) (by omega)
    omega
  · rw [if_neg h2]
    have : (i - l - 1) / (-st) = 0 := Int.ediv_eq_zero_of_lt (by omega) (by omega)
    rw [this]; rfl

theorem rangeLen_down_stop {i l st : Int} (hst : st < 0) (h : ¬ l < i) :
    Py.rangeLen i l st = 0 := by
  unfold Py.rangeLen
  have hns : ¬ st > 0 := by omega
  rw [if_neg hns, if_neg h]

theorem range_succ {i u st : Int} (h : Py.rangeLen i u st = Py.rangeLen (i + st) u st + 1) :
    Py.range i u st = i :: Py.range (i + st) u st := by
  unfold Py.range
  rw [h, List.range_succ_eq_map, List.map_cons, List.map_map]
  congr 1
  · simp
  · apply List.map_congr_left
    intro k _
    simp only [Function.comp_apply, Nat.succ_eq_add_one, Int.natCast_add, Int.add_mul]
    omega


theorem range_nil {i u st : Int} (h : Py.rangeLen i u st = 0) : Py.range i u st = [] := by
  unfold Py.range; rw [h]; rfl

theorem loopUp_eq_range {u st : Int} (hst : 0 < st) : ∀ (fuel : Nat) (i : Int),
    Py.rangeLen i u st ≤ fuel → Spec.loopUp fuel i u st = Py.range i u st := by
  intro fuel
  induction fuel with
  | zero =>
    intro i h
    rw [range_nil (by omega)]; rfl
  | succ f ih =>
    intro i h
    by_cases hi : i < u
    · have hr := rangeLen_up_step hst hi
      rw [Spec.loopUp, if_pos hi, ih (i + st) (by omega), range_succ hr]
    · rw [Spec.loopUp, if_neg hi, range_nil (rangeLen_up_stop hst hi)]

theorem loopDown_eq_range {l st : Int} (hst : st < 0) : ∀ (fuel : Nat) (i : Int),
    Py.rangeLen i l st ≤ fuel → Spec.loopDown fuel i l st = Py.range i l st := by
  intro fuel
  induction fuel with
  | zero =>
    intro i h
    rw [range_nil (by omega)]; rfl
  | succ f ih =>
    intro i h
    by_cases hi : l < i
    · have hr := rangeLen_down_step hst hi
      rw [Spec.loopDown, if_pos hi, ih (i + st) (by omega), range_succ hr]
    · rw [Spec.loopDown, if_neg hi, range_nil (rangeLen_down_stop hst hi)]

theorem rangeLen_up_le {l u st : Int} {len : Nat} (hst : 0 < st) (hl : 0 ≤ l) (hu : u ≤ len) :
    Py.rangeLen l u st ≤ len := by
  unfold Py.rangeLen
  rw [if_pos hst]
  split
  · have := Int.ediv_le_self (a := u - l - 1) st (by omega)
    omega
  · omega

theorem rangeLen_down_le {l u st : Int} {len : Nat} (hst : st < 0) (hl : -1 ≤ l) (hu : u ≤ (len : Int) - 1) :
    Py.rangeLen u l st ≤ len := by
  unfold Py.rangeLen
  rw [if_neg (by omega)]
  split
  · have := Int.ediv_le_self (a := u - l - 1) (-st) (by omega)
    omega
  · omega

theorem slice_none (len : Nat) (a b c : Option Int)
    (h : Py.sliceIndices len a b c = none) : Spec.sliceIndices len a b c = [] := by
  unfold Py.sliceIndices at h
  unfold Spec.sliceIndices
  generalize c.getD 1 = st0 at h ⊢
  by_cases h0 : st0 = 0
  · simp only [h0, if_true]
  · simp only [h0, if_false, reduceCtorEq] at h

theorem slice_some (len : Nat) (a b c : Option Int) (s e st : Int)
    (h : Py.sliceIndices len a b c = some (s, e, st)) :
    Spec.sliceIndices len a b c = Py.range s e st ∧ Py.rangeLen s e st ≤ len := by
  unfold Py.sliceIndices at h
  unfold Spec.sliceIndices
  generalize c.getD 1 = st0 at h ⊢
  by_cases h0 : st0 = 0
  · simp only [h0, if_true, reduceCtorEq] at h
  · simp only [h0, if_false, Option.some.injEq, Prod.mk.injEq] at h ⊢
    obtain ⟨hs, he, rfl⟩ := h
    obtain hpos | hneg : 0 < st0 ∨ st0 < 0 := by omega
    · have h1 : ¬ st0 < 0 := by omega
      have h2 : st0 ≥ 0 := by omega
      simp only [h1, if_false] at hs he
      simp only [h2, hpos, if_true]
      have hs' : (Spec.bounds (a.getD 0) (b.getD ↑len) st0 len).fst = s := by
        cases a <;> simp only [Spec.bounds, Spec.normalize, h2, if_true, Option.getD_none,
          Option.getD_some] at hs ⊢ <;> omega
      have he' : (Spec.bounds (a.getD 0) (b.getD ↑len) st0 len).snd = e := by
        cases b <;> simp only [Spec.bounds, Spec.normalize, h2, if_true, Option.getD_none,
          Option.getD_some] at he ⊢ <;> omega
      rw [hs', he']
      have hl : Py.rangeLen s e st0 ≤ len := by
        apply rangeLen_up_le hpos
        · cases a <;> simp only at hs <;> omega
        · cases b <;> simp only at he <;> omega
      exact ⟨loopUp_eq_range hpos _ _ (by omega), hl⟩
    · have h2 : ¬ st0 ≥ 0 := by omega
      have h3 : ¬ 0 < st0 := by omega
      simp only [hneg, if_true] at hs he
      simp only [h2, h3, if_false]
      have hs' : (Spec.bounds (a.getD (↑len - 1)) (b.getD (-↑len - 1)) st0 len).snd = s := by
        cases a <;> simp only [Spec.bounds, Spec.normalize, h2, if_false, Option.getD_none,
          Option.getD_some] at hs ⊢ <;> omega
      have he' : (Spec.bounds (a.getD (↑len - 1)) (b.getD (-↑len - 1)) st0 len).fst = e := by
        cases b <;> simp only [Spec.bounds, Spec.normalize, h2, if_false, Option.getD_none,
          Option.getD_some] at he ⊢ <;> omega
      rw [hs', he']
      have hl : Py.rangeLen s e st0 ≤ len := by
        apply rangeLen_down_le hneg
        · cases b <;> simp only at he <;> omega
        · cases a <;> simp only at hs <;> omega
      exact ⟨loopDown_eq_range hneg _ _ (by omega), hl⟩

theorem selSlice_arr (loc : Loc) (xs : List Json) (a b c : Option Int) :
    Impl.selSlice a b c ⟨loc, .arr xs⟩ = Spec.selSlice a b c ⟨loc, .arr xs⟩ := by
  simp only [Impl.selSlice, Spec.selSlice]
  by_cases hc : c = some 0
  · subst hc
    simp [Spec.sliceIndices]
  · rw [if_neg hc]
    unfold Py.sliceZip
    cases h : Py.sliceIndices xs.length a b c with
    | none => simp only [slice_none _ _ _ _ h, List.filterMap_nil]
    | some p =>
      obtain ⟨s, e, st⟩ := p
      simp only [(slice_some _ _ _ _ _ _ _ h).1, List.map_filterMap]
      congr 1
      funext i
      split
      · rfl
      · cases xs[i.toNat]? <;> rfl

theorem selSlice_correct : ∀ (n : Node) (a b c : Option Int),
    Impl.selSlice a b c n = Spec.selSlice a b c n := by
  intro n a b c
  obtain ⟨loc, v⟩ := n
  cases v <;> first | rfl | exact selSlice_arr _ _ _ _ _

theorem normalize_eq (i : Int) (len : Nat) :
    Spec.normalize i len = if i < 0 then i + (len : Int) else i := by
  unfold Spec.normalize
  split <;> split <;> omega

theorem normIndex_eq (i : Int) (len : Nat) (h : 0 ≤ Spec.normalize i len) :
    Impl.normIndex i len = Spec.normalize i len := by
  rw [normalize_eq] at h ⊢
  unfold Impl.normIndex
  split at h <;> split <;> omega

theorem pyIndex_eq (xs : List Json) (i : Int) :
    Py.index xs i =
      if Spec.normalize i xs.length < 0 then none else xs[(Spec.normalize i xs.length).toNat]? := by
  unfold Py.index
  simp only [← normalize_eq]
  generalize Spec.normalize i xs.length = j
  by_cases h1 : j < 0
  · simp only [h1, true_or, if_true]
  · by_cases h2 : j ≥ xs.length
    · simp only [h1, h2, or_true, if_true, if_false]
      rw [List.getElem?_eq_none (by omega)]
    · simp only [h1, h2, or_self, if_false]

theorem selIndex_arr (loc : Loc) (xs : List Json) (i : Int) :
    Impl.selIndex i ⟨loc, .arr xs⟩ = Spec.selIndex i ⟨loc, .arr xs⟩ := by
  simp only [Impl.selIndex, Spec.selIndex, pyIndex_eq]
  by_cases h1 : Spec.normalize i xs.length < 0
  · simp only [h1, if_true]
  · simp only [h1, if_false]
    rw [normIndex_eq _ _ (by omega)]
    cases xs[(Spec.normalize i xs.length).toNat]? <;> rfl

theorem selIndex_correct : ∀ (n : Node) (i : Int),
    Impl.selIndex i n = Spec.selIndex i n := by
  intro n i
  obtain ⟨loc, v⟩ := n
  cases v <;> first | rfl | exact selIndex_arr _ _ _

theorem selSlice_loc (xs : List Json) (loc : Loc) (a b c : Option Int) :
    ∀ m ∈ Impl.selSlice a b c ⟨loc, .arr xs⟩,
      ∃ i : Nat, i < xs.length ∧ m.loc = loc ++ [.idx (i : Int)] ∧ xs[i]? = some m.val := by
  intro m hm
  rw [selSlice_arr] at hm
  simp only [Spec.selSlice, List.mem_filterMap] at hm
  obtain ⟨i, _, hi⟩ := hm
  split at hi
  · simp at hi
  · next hneg =>
    cases hx : xs[i.toNat]? with
    | none => simp [hx] at hi
    | some x =>
      simp only [hx, Option.map_some, Option.some.injEq] at hi
      subst hi
      refine ⟨i.toNat, ?_, ?_, ?_⟩
      · exact (List.getElem?_eq_some_iff.mp hx).1
      · simp only [Spec.child]
        rw [Int.toNat_of_nonneg (by omega)]
      · exact hx

theorem selIndex_loc (xs : List Json) (loc : Loc) (i : Int) :
    ∀ m ∈ Impl.selIndex i ⟨loc, .arr xs⟩,
      ∃ k : Nat, k < xs.length ∧ m.loc = loc ++ [.idx (k : Int)] ∧ xs[k]? = some m.val := by
  intro m hm
  rw [selIndex_arr] at hm
  simp only [Spec.selIndex] at hm
  split at hm
  · simp at hm
  · next hneg =>
    cases hx : xs[(Spec.normalize i xs.length).toNat]? with
    | none => simp [hx] at hm
    | some x =>
      simp only [hx, List.mem_singleton] at hm
      subst hm
      refine ⟨(Spec.normalize i xs.length).toNat, ?_, ?_, ?_⟩
      · exact (List.getElem?_eq_some_iff.mp hx).1
      · simp only [Spec.child]
        rw [Int.toNat_of_nonneg (by omega)]
      · exact hx

theorem selSlice_step_zero (n : Node) (a b : Option Int) : Impl.selSlice a b (some 0) n = [] := by
  obtain ⟨loc, v⟩ := n
  cases v <;> simp [Impl.selSlice]

theorem sel_nonarray (n : Node) (h : ∀ xs, n.val ≠ .arr xs) (a b c : Option Int) (i : Int) :
    Impl.selSlice a b c n = [] ∧ Impl.selIndex i n = [] := by
  obtain ⟨loc, v⟩ := n
  cases v <;> first | exact ⟨rfl, rfl⟩ | exact absurd rfl (h _)

theorem spec_slice_length (len : Nat) (a b c : Option Int) :
    (Spec.sliceIndices len a b c).length ≤ len := by
  cases h : Py.sliceIndices len a b c with
  | none => rw [slice_none _ _ _ _ h]; exact Nat.zero_le _
  | some p =>
    obtain ⟨s, e, st⟩ := p
    obtain ⟨h1, h2⟩ := slice_some _ _ _ _ _ _ _ h
    rw [h1]
    simpa [Py.range] using h2

end JPV.Proofs
