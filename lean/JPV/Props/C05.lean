/-
C05 — Validity rules: function well-typedness, singular comparands, integer range.

Property text: "For any set of registered function extensions with declared
parameter and result types, a grammatically well-formed query compiles iff it is
well-typed under RFC 9535 section 2.4.3 and all its index and slice integers lie
within the environment's configured range; otherwise compile() raises a
JSONPathError, unknown function names included, and evaluation is never reached.
…"

`C05_statement`: a string is accepted by compile() iff it is grammatical and valid,
stated against the independent recogniser and validity rules: (⇐) `C03` — what
`Spec.judge` calls valid compiles (in `Props/C03.lean`, which imports this file);
(⇒) `C05_sound`, proved here: whatever compile() accepts, `Spec.judge` calls valid —
or `disputed` (D28) — for the environment's own signature table, at the level of the
DERIVATION, so including the rules that depend on parentheses (a parenthesised
argument is a logical expression) and unknown function names; hence an ill-typed,
out-of-range or unknown-function query never yields a query object and evaluation is
never reached.  `C05_partial` is the older AST-level form (kept: other proofs use it).
-/
import JPV.Impl.Parse
import JPV.Spec.Typing
import JPV.Proofs.ParseTyping
import JPV.Proofs.SoundValid
namespace JPV.Props
open JPV

/-- the signature table of an environment -/
def sigsOfEnv (env : Impl.Env) : Spec.Sigs :=
  fun n => (env.func n).map (fun f => ⟨f.argTypes, f.ret⟩)

def C05_sound_statement : Prop :=
  ∀ (env : Impl.Env) (s : Str) (q : Query), Impl.compile env s = .ok q →
    Spec.wtQuery (sigsOfEnv env) q = true ∧ Spec.intsQuery env.minIdx env.maxIdx q = true

theorem C05_partial : C05_sound_statement := Proofs.compile_welltyped

/-- soundness at the level of the derivation, for every environment and every string -/
theorem C05_sound (env : Impl.Env) (s : Str) (q : Query) (h : Impl.compile env s = .ok q) :
    ∃ c, (Spec.judge (sigsOfEnv env) env.minIdx env.maxIdx s = (.valid, some c) ∨
          Spec.judge (sigsOfEnv env) env.minIdx env.maxIdx s = (.disputed, some c)) ∧
      Spec.abstractSegs c = q :=
  Proofs.compile_sound_valid env s q h

/-- contrapositive: what the judge calls invalid — ungrammatical, ill-typed, out of range, unknown function —
makes compile() fail (with a JSONPathError: `C13_compile`), for any registry -/
theorem C05_invalid_rejected (env : Impl.Env) (s : Str)
    (hinv : (Spec.judge (sigsOfEnv env) env.minIdx env.maxIdx s).1 = .invalid) :
    ∃ e, Impl.compile env s = .error e := by
  cases hc : Impl.compile env s with
  | error e => exact ⟨e, rfl⟩
  | ok q =>
    obtain ⟨c, hj, _⟩ := C05_sound env s q hc
    rcases hj with hj | hj <;> rw [hj] at hinv <;> cases hinv

/-- the per-argument check of `check_well_typedness` is the RFC rule, for every
parameter type, on expressions the parser can have built (`Proofs.Built`) -/
theorem C05_arg_rule (env : Impl.Env) (t : Ty) (a : Expr) (h : Proofs.Built env a) :
    Impl.argWellTyped env t a = true ↔
      (match t with
       | .value => Spec.wtComparable (sigsOfEnv env) a = true
       | .logical => Spec.wtTest (sigsOfEnv env) a = true
       | .nodes => Spec.wtNodes (sigsOfEnv env) a = true) := Proofs.argWellTyped_iff env t a h

end JPV.Props
