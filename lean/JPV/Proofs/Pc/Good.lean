/-
`Proofs.Pc.Good` — the canonical derivation tree of a well-typed query is good in the sense of `Sv.Good`
(comparison operands are terms; a parenthesised argument — the printer parenthesises exactly the logical
and/or expressions — meets a LogicalType parameter), hence valid (`Sv.cSegs_of_good`).
-/
import JPV.Proofs.Sv.Good
import JPV.Proofs.Pc.CTree
namespace JPV.Proofs.Pc
open JPV JPV.Proofs.Sv

theorem isParen_cstr (a : Expr) (h : isParen (cstr a) = true) : ∃ o l r, a = .logical o l r := by
  cases a with
  | logical o l r => exact ⟨o, l, r, rfl⟩
  | lit v => rw [cstr_lit] at h; cases h
  | cmp o l r => rw [cstr_cmp] at h; cases h
  | rel q => rw [cstr_rel] at h; cases h
  | root q => rw [cstr_root] at h; cases h
  | call f args => rw [cstr_call] at h; cases h
  | not e =>
    cases e with
    | lit v => rw [cstr_not_lit] at h; cases h
    | cmp o a b => rw [cstr_not_cmp] at h; cases h
    | not x => rw [cstr_not_not] at h; cases h
    | logical o a b => rw [cstr_not_logical] at h; cases h
    | rel q => rw [cstr_not_rel] at h; cases h
    | root q => rw [cstr_not_root] at h; cases h
    | call f args => rw [cstr_not_call] at h; cases h

theorem isTermC_cstr (sg : Spec.Sigs) (a : Expr) (h : Spec.wtComparable sg a = true) :
    isTermC (cstr a) = true := by
  cases a with
  | lit v => rw [cstr_lit]; rfl
  | rel q => rw [cstr_rel]; rfl
  | root q => rw [cstr_root]; rfl
  | call f args => rw [cstr_call]; rfl
  | not e => simp [Spec.wtComparable] at h
  | logical o l r => simp [Spec.wtComparable] at h
  | cmp o l r => simp [Spec.wtComparable] at h

variable [S : SigC]

mutual
theorem g_cstr : (e : Expr) → (Spec.wtTest S.sg e = true ∨ Spec.wtComparable S.sg e = true ∨
    Spec.wtNodes S.sg e = true) → gExpr (cstr e) = true
  | .lit v, _ => by rw [cstr_lit]; simp [gExpr]
  | .not e, h => by
    simp only [Spec.wtTest, Spec.wtComparable, Spec.wtNodes, Bool.false_eq_true, or_false] at h
    have ih := g_cstr e (Or.inl h)
    cases e with
    | lit v => simp [Spec.wtTest] at h
    | cmp o a b => rw [cstr_not_cmp]; simpa [gExpr] using ih
    | not x => rw [cstr_not_not]; simpa [gExpr] using ih
    | logical o a b => rw [cstr_not_logical]; simpa [gExpr] using ih
    | rel q => rw [cstr_not_rel]; simpa [gExpr] using ih
    | root q => rw [cstr_not_root]; simpa [gExpr] using ih
    | call f args => rw [cstr_not_call]; simpa [gExpr] using ih
  | .logical .and l r, h => by
    simp only [Spec.wtTest, Spec.wtComparable, Spec.wtNodes, Bool.false_eq_true, or_false,
      Bool.and_eq_true] at h
    rw [cstr_and]
    simp only [gExpr, Bool.and_eq_true]
    exact ⟨g_cstr l (Or.inl h.1), g_cstr r (Or.inl h.2)⟩
  | .logical .or l r, h => by
    simp only [Spec.wtTest, Spec.wtComparable, Spec.wtNodes, Bool.false_eq_true, or_false,
      Bool.and_eq_true] at h
    rw [cstr_or]
    simp only [gExpr, Bool.and_eq_true]
    exact ⟨g_cstr l (Or.inl h.1), g_cstr r (Or.inl h.2)⟩
  | .cmp op l r, h => by
    simp only [Spec.wtTest, Spec.wtComparable, Spec.wtNodes, Bool.false_eq_true, or_false,
      Bool.and_eq_true] at h
    rw [cstr_cmp]
    simp only [gExpr, Bool.and_eq_true]
    exact ⟨⟨⟨isTermC_cstr S.sg l h.1, isTermC_cstr S.sg r h.2⟩, g_cstr l (Or.inr (Or.inl h.1))⟩,
      g_cstr r (Or.inr (Or.inl h.2))⟩
  | .rel q, h => by
    simp only [Spec.wtTest, Spec.wtComparable, Spec.wtNodes, Bool.and_eq_true] at h
    rw [cstr_rel]
    simp only [gExpr]
    exact g_csegs q (by rcases h with h | h | h <;> first | exact h | exact h.2)
  | .root q, h => by
    simp only [Spec.wtTest, Spec.wtComparable, Spec.wtNodes, Bool.and_eq_true] at h
    rw [cstr_root]
    simp only [gExpr]
    exact g_csegs q (by rcases h with h | h | h <;> first | exact h | exact h.2)
  | .call f args, h => by
    simp only [Spec.wtTest, Spec.wtComparable, Spec.wtNodes] at h
    rw [cstr_call]
    simp only [gExpr]
    cases hs : S.sg f with
    | none => simp [hs] at h
    | some s =>
      simp only [hs, Bool.and_eq_true] at h
      have := g_cargs s.argTypes args (by rcases h with h | h | h <;> exact h.2)
      simp only [Bool.and_eq_true]
      exact this
theorem g_cargs : (tys : List Ty) → (as : List Expr) → Spec.wtArgs S.sg tys as = true →
    gArgs (cargs as) = true ∧ pOK tys (cargs as) = true
  | [], [], _ => by rw [cargs_nil]; simp [gArgs, pOK]
  | [], a :: as, h => by simp [Spec.wtArgs] at h
  | t :: ts, [], h => by simp [Spec.wtArgs] at h
  | t :: ts, a :: as, h => by
    simp only [Spec.wtArgs, Bool.and_eq_true] at h
    obtain ⟨ih1, ih2⟩ := g_cargs ts as h.2
    rw [cargs_cons]
    simp only [gArgs, pOK, Bool.and_eq_true, Bool.or_eq_true, Bool.not_eq_true', beq_iff_eq]
    have h1 := h.1
    refine ⟨⟨?_, ih1⟩, ?_, ih2⟩
    · cases t with
      | value => exact g_cstr a (Or.inr (Or.inl h1))
      | logical => exact g_cstr a (Or.inl h1)
      | nodes => exact g_cstr a (Or.inr (Or.inr h1))
    · cases hp : isParen (cstr a) with
      | false => exact .inl rfl
      | true =>
        obtain ⟨o, l, r, rfl⟩ := isParen_cstr a hp
        cases t with
        | value => simp [Spec.wtComparable] at h1
        | logical => exact .inr rfl
        | nodes => simp [Spec.wtNodes] at h1
theorem g_ccanon : (e : Expr) → (p : Nat) → Spec.wtTest S.sg e = true → gExpr (ccanon p e) = true
  | .lit v, p, h => by simp [Spec.wtTest] at h
  | .not e, p, h => by
    simp only [Spec.wtTest] at h
    have ih := g_ccanon e 7 h
    rw [ccanon_not]
    split <;> simpa [gExpr] using ih
  | .logical .and l r, p, h => by
    simp only [Spec.wtTest, Bool.and_eq_true] at h
    have ih1 := g_ccanon l 4 h.1
    have ih2 := g_ccanon r 4 h.2
    rw [ccanon_and]
    split <;> simp [gExpr, ih1, ih2]
  | .logical .or l r, p, h => by
    simp only [Spec.wtTest, Bool.and_eq_true] at h
    have ih1 := g_ccanon l 3 h.1
    have ih2 := g_ccanon r 3 h.2
    rw [ccanon_or]
    split <;> simp [gExpr, ih1, ih2]
  | .cmp op l r, p, h => by
    have := g_cstr (.cmp op l r) (Or.inl h)
    rw [ccanon_cmp]
    split
    · simpa [gExpr] using this
    · exact this
  | .rel q, p, h => by rw [ccanon_rel]; exact g_cstr (.rel q) (Or.inl h)
  | .root q, p, h => by rw [ccanon_root]; exact g_cstr (.root q) (Or.inl h)
  | .call f args, p, h => by rw [ccanon_call]; exact g_cstr (.call f args) (Or.inl h)
theorem g_csel : (s : Selector) → Spec.wtSel S.sg s = true → gSel (csel s) = true
  | .name s, _ => by rw [csel_name]; simp [gSel]
  | .index i, _ => by rw [csel_index]; simp [gSel]
  | .wild, _ => by rw [csel_wild]; simp [gSel]
  | .slice a b c, _ => by rw [csel_slice]; simp [gSel]
  | .filter e, h => by
    simp only [Spec.wtSel] at h
    rw [csel_filter]
    simp only [gSel]
    exact g_ccanon e 1 h
theorem g_csels : (ss : List Selector) → Spec.wtSels S.sg ss = true → gSels (csels ss) = true
  | [], _ => by rw [csels_nil]; simp [gSels]
  | s :: ss, h => by
    simp only [Spec.wtSels, Bool.and_eq_true] at h
    rw [csels_cons]
    simp only [gSels, Bool.and_eq_true]
    exact ⟨g_csel s h.1, g_csels ss h.2⟩
theorem g_csegs : (q : List Segment) → Spec.wtQuery S.sg q = true → gSegs (csegs q) = true
  | [], _ => by rw [csegs_nil]; simp [gSegs]
  | .child sels :: rest, h => by
    simp only [Spec.wtQuery, Spec.wtSeg, Bool.and_eq_true] at h
    rw [csegs_child]
    simp only [gSegs, Bool.and_eq_true]
    exact ⟨g_csels sels h.1, g_csegs rest h.2⟩
  | .desc sels :: rest, h => by
    simp only [Spec.wtQuery, Spec.wtSeg, Bool.and_eq_true] at h
    rw [csegs_desc]
    simp only [gSegs, Bool.and_eq_true]
    exact ⟨g_csels sels h.1, g_csegs rest h.2⟩
end

end JPV.Proofs.Pc
