/-
`Proofs.Float.DecExp` — `Py.decimalExponent n d` is the `e` with `10^(e-1) ≤ n/d < 10^e`, whenever the
difference of the bit lengths of `n` and `d` is in `[-1100, 1100]` (every quotient the float models form).
-/
import JPV.Proofs.Float.DecExpTable
namespace JPV.Proofs.Float
open JPV

/-! ### the two loops, for an arbitrary antitone test -/

theorem decExp_up_succ (ge : Int → Bool) (f : Nat) (e : Int) :
    Py.decimalExponent.up ge (f + 1) e = if ge e then Py.decimalExponent.up ge f (e + 1) else e := rfl

theorem decExp_up_zero (ge : Int → Bool) (e : Int) : Py.decimalExponent.up ge 0 e = e := rfl

theorem decExp_down_succ (ge : Int → Bool) (f : Nat) (e : Int) :
    Py.decimalExponent.down ge (f + 1) e = if ge (e - 1) then e else Py.decimalExponent.down ge f (e - 1) := rfl

theorem decExp_up_spec (ge : Int → Bool) (f : Nat) : ∀ (e : Int), ge (e - 1) = true → ge (e + f) = false →
    e ≤ Py.decimalExponent.up ge (f + 1) e ∧ Py.decimalExponent.up ge (f + 1) e ≤ e + f ∧
    ge (Py.decimalExponent.up ge (f + 1) e - 1) = true ∧ ge (Py.decimalExponent.up ge (f + 1) e) = false := by
  induction f with
  | zero =>
    intro e h1 h2
    have h2' : ge e = false := by simpa using h2
    rw [decExp_up_succ, h2']
    simp only [Bool.false_eq_true, if_false]
    exact ⟨le_refl _, by omega, h1, h2'⟩
  | succ f ih =>
    intro e h1 h2
    rw [decExp_up_succ]
    cases hge : ge e with
    | false =>
      simp only [Bool.false_eq_true, if_false]
      exact ⟨le_refl _, by omega, h1, hge⟩
    | true =>
      simp only [if_true]
      have e1 : e + 1 - 1 = e := by omega
      have e2 : e + 1 + (f : Int) = e + ((f + 1 : Nat) : Int) := by push_cast; omega
      obtain ⟨a, b, c, d⟩ := ih (e + 1) (by rw [e1]; exact hge) (by rw [e2]; exact h2)
      refine ⟨by omega, ?_, c, d⟩
      have : ((f + 1 : Nat) : Int) = (f : Int) + 1 := by push_cast; rfl
      omega

theorem decExp_down_fix (ge : Int → Bool) (f : Nat) (e : Int) (h : ge (e - 1) = true) :
    Py.decimalExponent.down ge (f + 1) e = e := by
  rw [decExp_down_succ, h]; rfl

/-! ### `n/d` between powers of two -/

theorem ratio_log2_bounds (n d : Nat) (hn : 0 < n) (hd : 0 < d) :
    (2 : ℚ) ^ ((Nat.log2 n : Int) - (Nat.log2 d : Int) - 1) < (n : ℚ) / d ∧
    (n : ℚ) / d < (2 : ℚ) ^ ((Nat.log2 n : Int) - (Nat.log2 d : Int) + 1) := by
  have hdq : (0 : ℚ) < d := by exact_mod_cast hd
  have h2 : (2 : ℚ) ≠ 0 := by norm_num
  have na : ((2 ^ Nat.log2 n : Nat) : ℚ) ≤ n := by exact_mod_cast Nat.log2_self_le (Nat.pos_iff_ne_zero.mp hn)
  have nb : (n : ℚ) < ((2 ^ (Nat.log2 n + 1) : Nat) : ℚ) := by exact_mod_cast (Nat.lt_log2_self (n := n))
  have da : ((2 ^ Nat.log2 d : Nat) : ℚ) ≤ d := by exact_mod_cast Nat.log2_self_le (Nat.pos_iff_ne_zero.mp hd)
  have db : (d : ℚ) < ((2 ^ (Nat.log2 d + 1) : Nat) : ℚ) := by exact_mod_cast (Nat.lt_log2_self (n := d))
  push_cast at na nb da db
  have pa : (0 : ℚ) < 2 ^ Nat.log2 n := by positivity
  have pb : (0 : ℚ) < 2 ^ Nat.log2 d := by positivity
  constructor
  · have e : (2 : ℚ) ^ ((Nat.log2 n : Int) - (Nat.log2 d : Int) - 1) = 2 ^ Nat.log2 n / 2 ^ (Nat.log2 d + 1) := by
      rw [show (Nat.log2 n : Int) - (Nat.log2 d : Int) - 1 = (Nat.log2 n : Int) - ((Nat.log2 d + 1 : Nat) : Int) by
        push_cast; ring, zpow_sub₀ h2, zpow_natCast, zpow_natCast]
    rw [e, div_lt_div_iff₀ (by positivity) hdq]
    calc (2 : ℚ) ^ Nat.log2 n * d < 2 ^ Nat.log2 n * 2 ^ (Nat.log2 d + 1) := by gcongr
      _ ≤ n * 2 ^ (Nat.log2 d + 1) := by gcongr
  · have e : (2 : ℚ) ^ ((Nat.log2 n : Int) - (Nat.log2 d : Int) + 1) = 2 ^ (Nat.log2 n + 1) / 2 ^ Nat.log2 d := by
      rw [show (Nat.log2 n : Int) - (Nat.log2 d : Int) + 1 = ((Nat.log2 n + 1 : Nat) : Int) - (Nat.log2 d : Int) by
        push_cast; ring, zpow_sub₀ h2, zpow_natCast, zpow_natCast]
    rw [e, div_lt_div_iff₀ hdq pb]
    calc (n : ℚ) * 2 ^ Nat.log2 d < 2 ^ (Nat.log2 n + 1) * 2 ^ Nat.log2 d := by gcongr
      _ ≤ 2 ^ (Nat.log2 n + 1) * d := by gcongr

/-! ### the result -/

theorem decimalExponent_spec (n d : Nat) (hn : 0 < n) (hd : 0 < d)
    (hlo : -1100 ≤ (Nat.log2 n : Int) - (Nat.log2 d : Int))
    (hhi : (Nat.log2 n : Int) - (Nat.log2 d : Int) ≤ 1100) :
    ge10 n d (Py.decimalExponent n d - 1) = true ∧ ge10 n d (Py.decimalExponent n d) = false ∧
    ((Nat.log2 n : Int) - (Nat.log2 d : Int)) * 30103 / 100000 - 2 ≤ Py.decimalExponent n d ∧
    Py.decimalExponent n d ≤ ((Nat.log2 n : Int) - (Nat.log2 d : Int)) * 30103 / 100000 + 5 := by
  obtain ⟨r1, r2⟩ := ratio_log2_bounds n d hn hd
  have t1 := table_lo _ hlo hhi
  have t2 := table_hi _ hlo hhi
  have hE0 := decimalExponent_eq n d
  generalize (Nat.log2 n : Int) - (Nat.log2 d : Int) = t at *
  have p1 : ge10 n d (t * 30103 / 100000 - 2 - 1) = true := (ge10_iff n d hd _).mpr (le_trans t1 r1.le)
  have p2 : ge10 n d (t * 30103 / 100000 - 2 + ((7 : Nat) : Int)) = false := by
    cases h : ge10 n d (t * 30103 / 100000 - 2 + ((7 : Nat) : Int)) with
    | false => rfl
    | true =>
      have := (ge10_iff n d hd _).mp h
      have t2' : (2 : ℚ) ^ (t + 1) ≤ (10 : ℚ) ^ (t * 30103 / 100000 - 2 + ((7 : Nat) : Int)) := t2
      exact absurd (lt_of_lt_of_le r2 (le_trans t2' this)) (lt_irrefl _)
  obtain ⟨a, b, c, e⟩ := decExp_up_spec (ge10 n d) 7 _ p1 p2
  have hdown := decExp_down_fix (ge10 n d) 7 _ c
  have hE : Py.decimalExponent n d = Py.decimalExponent.up (ge10 n d) 8 (t * 30103 / 100000 - 2) := hE0.trans hdown
  rw [hE]
  have b' : Py.decimalExponent.up (ge10 n d) 8 (t * 30103 / 100000 - 2) ≤ t * 30103 / 100000 - 2 + 7 := b
  refine ⟨c, e, a, ?_⟩
  omega

theorem decimalExponent_bounds (n d : Nat) (hn : 0 < n) (hd : 0 < d)
    (hlo : -1100 ≤ (Nat.log2 n : Int) - (Nat.log2 d : Int))
    (hhi : (Nat.log2 n : Int) - (Nat.log2 d : Int) ≤ 1100) :
    (10 : ℚ) ^ (Py.decimalExponent n d - 1) ≤ (n : ℚ) / d ∧ (n : ℚ) / d < (10 : ℚ) ^ (Py.decimalExponent n d) := by
  obtain ⟨h1, h2, -, -⟩ := decimalExponent_spec n d hn hd hlo hhi
  refine ⟨(ge10_iff n d hd _).mp h1, lt_of_not_ge fun h => ?_⟩
  rw [(ge10_iff n d hd _).mpr h] at h2
  exact Bool.noConfusion h2

end JPV.Proofs.Float
