/-
Vocabulary shared by the property statements: how RFC-typed values are
represented as the dynamically typed objects of the implementation model, and
what it means for a registered Python function body to implement a typed
function.
-/
import JPV.Impl.Eval
import JPV.Spec.Semantics
import JPV.Spec.Typing
namespace JPV.Props
open JPV

/-- A comparand / ValueType value as a Python object: Nothing ↦ `NOTHING`. -/
def valObj : Spec.Val → Impl.Obj
  | none => .nothing
  | some j => .val j

/-- A typed argument as the Python object the function body receives. -/
def argObj : Spec.Arg → Impl.Obj
  | .value v => valObj v
  | .logical b => .val (.bool b)
  | .nodes ns => .nodes ns

def argTy : Spec.Arg → Ty
  | .value _ => .value
  | .logical _ => .logical
  | .nodes _ => .nodes

/-- all JSON values carried by an argument are well-formed -/
def ArgWF : Spec.Arg → Prop
  | .value none => True
  | .value (some j) => j.WF
  | .logical _ => True
  | .nodes ns => ∀ n ∈ ns, n.val.WF

/-- The Python body `f` implements the typed function `fn`: on arguments of the
declared types it returns (never raises) the representation of `fn`'s result,
which has the declared result type and is well-formed when the arguments are. -/
structure Conforms (f : Impl.Func) (fn : Spec.Fn) : Prop where
  argTypes : f.argTypes = fn.argTypes
  ret : f.ret = fn.ret
  body : ∀ args : List Spec.Arg, args.map argTy = fn.argTypes →
    f.body (args.map argObj) = .ok (argObj (fn.sem args))
  retTy : ∀ args : List Spec.Arg, args.map argTy = fn.argTypes → argTy (fn.sem args) = fn.ret
  retWF : ∀ args : List Spec.Arg, args.map argTy = fn.argTypes →
    (∀ a ∈ args, ArgWF a) → ArgWF (fn.sem args)

/-- the environment's registry and the typed registry describe the same functions -/
def EnvConforms (env : Impl.Env) (reg : Spec.Registry) : Prop :=
  ∀ name, match env.func name, reg name with
    | some f, some fn => Conforms f fn
    | none, none => True
    | _, _ => False

/-- the signature table of a typed registry -/
def sigsOf (reg : Spec.Registry) : Spec.Sigs :=
  fun n => (reg n).map (fun fn => ⟨fn.argTypes, fn.ret⟩)

/-- The registry of the three built-in functions that are modelled operationally. -/
def builtinReg : Spec.Registry := fun n =>
  if n = "length".toList then some Spec.lengthFn
  else if n = "count".toList then some Spec.countFn
  else if n = "value".toList then some Spec.valueFn
  else none

def builtinEnv : Impl.Env :=
  { funcs := [("length".toList, Impl.lengthFunc), ("count".toList, Impl.countFunc),
              ("value".toList, Impl.valueFunc)] }

/-- The objects `ComparisonExpression.evaluate` hands to `_compare` for a
well-typed comparison: an empty nodelist (empty singular query), NOTHING
(function result) or a raw JSON value. -/
inductive Comparand : Impl.Obj → Prop
  | emptyNodes : Comparand (.nodes [])
  | nothing : Comparand .nothing
  | val (j : Json) : Comparand (.val j)

/-- the RFC comparand an object stands for -/
def floorObj : Impl.Obj → Spec.Val
  | .val j => some j
  | _ => none

def ObjWF : Impl.Obj → Prop
  | .val j => j.WF
  | _ => True

end JPV.Props
