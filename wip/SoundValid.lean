import JPV.Impl.Parse
import JPV.Spec.Grammar
import JPV.Spec.Valid
import JPV.Spec.Typing
import JPV.Proofs.ParseTyping
import JPV.Proofs.SoundFull
namespace JPV.Proofs
open JPV JPV.Impl

/-- C05, soundness at the level of the DERIVATION (parentheses kept): whatever string the implementation
compiles, the RFC 9535 validity rules accept its derivation — every function call well-typed for the
environment's own signatures INCLUDING the rules that depend on parentheses (a parenthesised argument is a
logical expression: `count((@.*))` is ill-typed although `count(@.*)` is not), comparison operands
comparable, integers in range.  So `Spec.judge` says `valid` (or `disputed`, D28) for every compiled string. -/
theorem compile_sound_valid (env : Env) (s : Str) (q : Query)
    (h : Impl.compile env s = .ok q) :
    ∃ c, (Spec.judge (sigsOfEnv' env) env.minIdx env.maxIdx s = (.valid, some c) ∨
          Spec.judge (sigsOfEnv' env) env.minIdx env.maxIdx s = (.disputed, some c)) ∧
      Spec.abstractSegs c = q := by
  sorry

end JPV.Proofs
