"""Termination of compile() on inputs built to make a scanner or a regular expression work hard: long runs of one
character class that end in something that cannot complete the token (an unclosed or badly escaped string literal
after 20..400 ordinary characters, a long digit run then a letter, a long name then a control character, deep
brackets that never close ...).  The real compile() runs in a CHILD PROCESS, one string after another, reporting
after each; if nothing arrives for `per_call` seconds the child is killed and the string it was working on is the
failing input ("did not return within N s").  A time bound cannot be PROVED by running (the theorem side is
`C13_compile`: the model's lexer and parser terminate on every string, with explicit measures); this stage looks for
the failing input when the real scanner is not the model's."""
from __future__ import annotations

import multiprocessing as mp
import time

import real


def _worker(conn, strings):
    import jsonpath_rfc9535 as jp

    env = jp.JSONPathEnvironment()
    for i, q in enumerate(strings):
        t = time.time()
        try:
            env.compile(q)
            out = "ok"
        except jp.JSONPathError as exc:
            out = "err " + type(exc).__name__
        except RecursionError:
            out = "PY:RecursionError"
        except Exception as exc:  # noqa: BLE001
            out = "PY:" + type(exc).__name__
        conn.send((i, out, time.time() - t))
    conn.send((-1, "done", 0.0))


def hard_strings(rng, tier):
    runs = [24, 30, 40, 64, 120, 400] if tier != "thorough" else [20, 24, 28, 32, 40, 64, 120, 400, 1000]
    out = []
    for n in runs:
        body = ("the quick brown fox jumps over the lazy dog " * 30)[:n]
        for q in ("'", '"'):
            out += [f"$[{q}{body}", f"$[{q}{body}\\q{q}]", f"$[{q}{body}\\", f"$[?@.a == {q}{body}", f"$[?match(@.a, {q}{body}\\u12{q})]", f"$[{q}{body}\n{q}]",
                    f"$[{q}{'ab' * (n // 2)}\\u00zz{q}]", f"$.a[{q}{body}{q}", f"$[{q}{'a' * n}\x00"]
        out += ["$[" + "1" * n + "x]", "$[?@.a == " + "1" * n + "e]", "$[?@.a == " + "1" * n + "." + "2" * n + "e+]", "$." + "a" * n + "\x00", "$.." + "é" * n + "[",
                "$[" + " " * n + "x", "$[?" + "(" * min(n, 60) + "@.a", "$" + "[0]" * (n // 3) + "[", "$[?" + "!" * min(n, 200) + "@.a", "$[?length(" + "@.a, " * (n // 5) + ")]",
                "$[?@.a " + "&& " * (n // 3) + "]", "$[" + "0:" * (n // 2) + "]", "$[?@.a == " + "-" * n + "1]", "$[" + "1" * n + ":" + "2" * n + ":" + "3" * n,
                "$[?" + "a" * n + "(", "$[?" + "a" * n + "(@.a", "$[?tru" + "e" * n + "]", "$['" + "\\\\" * (n // 2) + "\\", "$[" + "'a'," * (n // 4) + "'b"]
    return out


def stage(rng, tier, res, prop="C13", per_call=8.0):
    strings = hard_strings(rng, tier)
    ctx = mp.get_context("fork")
    pos = 0
    while pos < len(strings):
        parent, child = ctx.Pipe(duplex=False)
        proc = ctx.Process(target=_worker, args=(child, strings[pos:]), daemon=True)
        proc.start()
        child.close()
        hung = None
        while True:
            if not parent.poll(per_call):
                hung = pos
                break
            try:
                i, out, dt = parent.recv()
            except EOFError:
                res.infra.append("termination stage: the child process died")
                hung = None
                pos = len(strings)
                break
            if i < 0:
                pos = len(strings)
                break
            res.evaluations += 1
            if out.startswith("PY:"):
                res.violations.append({"property": prop, "query": strings[pos], "observed": out, "expected": "a query object or a JSONPathError",
                                       "what": "compile() raised an exception that is not a JSONPathError"})
            pos += 1
        proc.kill()
        proc.join(5)
        if hung is not None:
            q = strings[hung]
            res.violations.append({"property": prop, "query": q, "observed": f"no outcome after {per_call:.0f} s (string of {len(q)} characters)",
                                   "expected": "a query object or a JSONPathError, promptly",
                                   "what": "compile() did not return: termination on every input string is part of the property"})
            pos = hung + 1
            if sum(1 for v in res.violations if "did not return" in v.get("what", "")) >= 3:
                break
    res.count("termination-strings", len(strings))
