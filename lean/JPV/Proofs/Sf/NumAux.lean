/-
`Proofs.Sf.NumAux` — list lemmas about maximal digit runs, the shape of a `-?[0-9]+` match, and the
pieces (`int`, `frac`, `exp`) of the grammar's `numberSpelling` against the scanners.
-/
import JPV.Proofs.Sf.Shape
import JPV.Proofs.LexInv
import JPV.Proofs.Ss.BrPure
namespace JPV.Proofs.Sf
open JPV JPV.Impl JPV.Proofs.Cs JPV.Proofs.Ss

/-! ### digit runs -/

theorem spanLen_zero_iff (p : Char → Bool) (r : List Char) : spanLen p r = 0 ↔ r.takeWhile p = [] := by
  rw [spanLen_eq]; exact List.length_eq_zero_iff

theorem spanLen_drop_spanLen (p : Char → Bool) (l : List Char) : spanLen p (l.drop (spanLen p l)) = 0 := by
  induction l with
  | nil => rfl
  | cons c cs ih =>
    cases h : p c with
    | true => simp only [spanLen, h, if_true]; rw [Nat.add_comm, List.drop_succ_cons]; exact ih
    | false => simp [spanLen, h]

theorem spanLen_run {p : Char → Bool} {ds r : List Char} (h1 : ∀ c ∈ ds, p c = true)
    (h2 : spanLen p r = 0) : spanLen p (ds ++ r) = ds.length := by
  induction ds with
  | nil => simpa using h2
  | cons d ds ih =>
    have hd := h1 d (by simp)
    simp only [List.cons_append, spanLen, hd, if_true, List.length_cons]
    rw [ih (fun c hc => h1 c (by simp [hc]))]; omega

theorem takeWhile_run {p : Char → Bool} {ds r : List Char} (h1 : ∀ c ∈ ds, p c = true)
    (h2 : spanLen p r = 0) : (ds ++ r).takeWhile p = ds := by
  induction ds with
  | nil => simpa [spanLen_zero_iff] using h2
  | cons d ds ih =>
    have hd := h1 d (by simp)
    simp only [List.cons_append, List.takeWhile, hd]
    rw [ih (fun c hc => h1 c (by simp [hc]))]

/-- the shape of a `-?[0-9]+` match: sign, a non-empty maximal digit run, the rest -/
theorem reSignedDigits_inv {x : List Char} {n0 : Nat} (h : reSignedDigits x = some n0) :
    ∃ sg d ds r, x = sg ++ (d :: ds ++ r) ∧ (sg = [] ∨ sg = ['-']) ∧ isDigit d = true ∧
      (∀ c ∈ ds, isDigit c = true) ∧ spanLen isDigit r = 0 ∧ n0 = sg.length + (ds.length + 1) := by
  have key : ∀ y : List Char, spanLen isDigit y ≠ 0 → ∃ d ds r, y = d :: ds ++ r ∧ isDigit d = true ∧
      (∀ c ∈ ds, isDigit c = true) ∧ spanLen isDigit r = 0 ∧ spanLen isDigit y = ds.length + 1 := by
    intro y hy
    obtain ⟨d, t, rfl, hd⟩ := spanLen_pos_cons hy
    refine ⟨d, t.takeWhile isDigit, t.drop (spanLen isDigit t), ?_, hd, takeWhile_all _ _, spanLen_drop_spanLen _ _, ?_⟩
    · rw [spanLen_eq, List.cons_append, takeWhile_append_drop]
    · simp only [spanLen, hd, if_true]; rw [spanLen_eq]; omega
  unfold reSignedDigits at h
  split at h
  rename_i sign r heq
  simp only at h
  split at h
  · cases h
  · rename_i hn
    cases h
    obtain ⟨d, ds, r', e, hd, hds, hr, hl⟩ := key r hn
    split at heq
    · cases heq
      exact ⟨['-'], d, ds, r', by rw [e]; rfl, Or.inr rfl, hd, hds, hr, by rw [hl]; rfl⟩
    · cases heq
      exact ⟨[], d, ds, r', by rw [e]; rfl, Or.inl rfl, hd, hds, hr, by rw [hl]; simp⟩

/-! ### the pieces of `numberSpelling` -/

def ipart (inp : List Char) : Option (List Char × List Char) :=
  match inp with
  | '-' :: '0' :: r => some (['-', '0'], r)
  | _ => match Spec.intLit inp with
    | some (_, r) => some (inp.take (inp.length - r.length), r)
    | none => none

def fracPart (sp r : List Char) : List Char × List Char :=
  match r with
  | '.' :: d :: r2 =>
    if Spec.isDIGIT d then
      let ds := (d :: r2).takeWhile Spec.isDIGIT
      (sp ++ ['.'] ++ ds, (d :: r2).drop ds.length)
    else (sp, r)
  | _ => (sp, r)

def expPart (sp r : List Char) : List Char × List Char :=
  match r with
  | e :: r2 =>
    if e = 'e' || e = 'E' then
      let (sg, r3) := match r2 with
        | '+' :: r3 => (['+'], r3)
        | '-' :: r3 => (['-'], r3)
        | _ => ([], r2)
      let ds := r3.takeWhile Spec.isDIGIT
      if ds.isEmpty then (sp, r) else (sp ++ [e] ++ sg ++ ds, r3.drop ds.length)
    else (sp, r)
  | [] => (sp, r)

theorem numberSpelling_eq (inp : List Char) : Spec.numberSpelling inp =
    match ipart inp with
    | none => none
    | some (sp, r) => some (expPart (fracPart sp r).1 (fracPart sp r).2) := by
  rfl

theorem isDIGIT_fun : Spec.isDIGIT = isDigit := rfl

/-- length of `\.[0-9]+` at the head of `r` (0: no match) -/
def fracLen : List Char → Nat
  | '.' :: r2 => if spanLen isDigit r2 = 0 then 0 else spanLen isDigit r2 + 1
  | _ => 0

theorem fracPart_eq (sp r : List Char) : fracPart sp r = (sp ++ r.take (fracLen r), r.drop (fracLen r)) := by
  unfold fracPart
  split
  · rename_i d r2
    rw [isDIGIT_fun]
    cases hd : isDigit d with
    | false => simp [fracLen, spanLen, hd]
    | true =>
      have h1 : spanLen isDigit (d :: r2) = 1 + spanLen isDigit r2 := by simp [spanLen, hd]
      simp only [if_true, fracLen, h1]
      rw [if_neg (by omega), ← spanLen_eq, ← take_spanLen, h1]
      simp [Nat.add_comm 1]
  · rename_i hne
    cases r with
    | nil => simp [fracLen]
    | cons c t =>
      by_cases hc : c = '.'
      · subst hc
        cases t with
        | nil => simp [fracLen, spanLen]
        | cons d r2 =>
          cases hd : isDigit d with
          | false => simp [fracLen, spanLen, hd]
          | true => exact absurd rfl (hne d r2)
      · have : fracLen (c :: t) = 0 := by
          unfold fracLen
          split
          · rename_i h; simp only [List.cons.injEq] at h; exact absurd h.1 hc
          · rfl
        simp [this]

theorem expTail (sp : List Char) (e : Char) (sg r3 : List Char) :
    (if (r3.takeWhile Spec.isDIGIT).isEmpty then (sp, e :: (sg ++ r3))
      else (sp ++ [e] ++ sg ++ r3.takeWhile Spec.isDIGIT, r3.drop (r3.takeWhile Spec.isDIGIT).length)) =
    (sp ++ (e :: (sg ++ r3)).take (if spanLen isDigit r3 = 0 then 0 else 1 + sg.length + spanLen isDigit r3),
      (e :: (sg ++ r3)).drop (if spanLen isDigit r3 = 0 then 0 else 1 + sg.length + spanLen isDigit r3)) := by
  rw [isDIGIT_fun]
  by_cases h : spanLen isDigit r3 = 0
  · have h' := (spanLen_zero_iff _ _).mp h
    simp [h, h']
  · have h' : (r3.takeWhile isDigit).isEmpty = false := by
      rw [List.isEmpty_eq_false_iff]; intro h2; exact h ((spanLen_zero_iff _ _).mpr h2)
    rw [h', if_neg h, ← spanLen_eq, ← take_spanLen]
    have e1 : 1 + sg.length + spanLen isDigit r3 = (sg.length + spanLen isDigit r3) + 1 := by omega
    rw [e1, List.take_succ_cons, List.drop_succ_cons]
    simp [List.take_append, List.drop_append, List.take_of_length_le]

theorem reExpOpt_other (e : Char) (r2 : List Char) (h1 : ∀ r3, r2 ≠ '+' :: r3) (h2 : ∀ r3, r2 ≠ '-' :: r3) :
    reExpOpt (e :: r2) = if e = 'e' || e = 'E' then
      (if spanLen isDigit r2 = 0 then 0 else 1 + 0 + spanLen isDigit r2) else 0 := by
  unfold reExpOpt
  simp only

theorem expPart_eq (sp r : List Char) : expPart sp r = (sp ++ r.take (reExpOpt r), r.drop (reExpOpt r)) := by
  cases r with
  | nil => simp [expPart, reExpOpt]
  | cons e r2 =>
    unfold expPart
    simp only
    split
    · rename_i he
      split
      · rw [reExpOpt]; simp only [he, if_true]
        exact expTail sp e ['+'] _
      · rw [reExpOpt]; simp only [he, if_true]
        exact expTail sp e ['-'] _
      · rename_i h1 h2
        rw [reExpOpt_other e r2 (fun r3 h => h1 r3 h) (fun r3 h => h2 r3 h)]
        simp only [he, if_true]
        exact expTail sp e [] _
    · rename_i he
      have : reExpOpt (e :: r2) = 0 := by
        unfold reExpOpt; simp only [he]; simp
      simp [this]
/-! ### the scanners in terms of `fracLen` and `reExpOpt` -/

theorem fracLen_ne_dot {c : Char} (t : List Char) (hc : c ≠ '.') : fracLen (c :: t) = 0 := by
  unfold fracLen
  split
  · rename_i h; simp only [List.cons.injEq] at h; exact absurd h.1 hc
  · rfl

theorem fracLen_dot (t : List Char) : fracLen ('.' :: t) =
    if spanLen isDigit t = 0 then 0 else spanLen isDigit t + 1 := rfl

theorem floatTry_eq {c : Nat} {r : List Char} {n : Nat} (h : reSignedDigits r = some n) :
    floatTry c r = if fracLen (r.drop n) = 0 then none else
      some (c + n + fracLen (r.drop n) + reExpOpt (r.drop (n + fracLen (r.drop n)))) := by
  unfold floatTry
  rw [h]
  simp only
  rw [← List.drop_drop]
  generalize r.drop n = t
  cases t with
  | nil => simp [fracLen]
  | cons c t =>
    by_cases hc : c = '.'
    · subst hc
      simp only [fracLen_dot]
      by_cases hd : spanLen isDigit t = 0
      · simp [hd]
      · simp only [hd, if_false]
        rw [if_neg (by omega), List.drop_succ_cons]
        congr 1; omega
    · rw [fracLen_ne_dot t hc]
      split
      · rename_i h; simp only [List.cons.injEq] at h; exact absurd h.1 hc
      · simp

theorem reFloatAlt2_some {x : List Char} {n : Nat} (h : reFloatAlt2 x = some n) :
    ∃ n0 e r, reSignedDigits x = some n0 ∧ x.drop n0 = e :: '-' :: r ∧ (e = 'e' ∨ e = 'E') ∧
      spanLen isDigit r ≠ 0 ∧ n = n0 + 2 + spanLen isDigit r := by
  unfold reFloatAlt2 at h
  split at h
  · cases h
  · rename_i n0 h0
    split at h
    · rename_i e r hd
      split at h
      · rename_i he
        simp only at h
        split at h
        · cases h
        · rename_i hne
          cases h
          exact ⟨n0, e, r, h0, hd, by simpa using he, hne, rfl⟩
      · cases h
    · cases h

theorem reFloatAlt2_none {x : List Char} {n0 : Nat} (h0 : reSignedDigits x = some n0)
    (h : reFloatAlt2 x = none) {e : Char} {r : List Char} (hd : x.drop n0 = e :: '-' :: r)
    (he : e = 'e' ∨ e = 'E') : spanLen isDigit r = 0 := by
  unfold reFloatAlt2 at h
  rw [h0] at h
  simp only [hd] at h
  have he' : (e = 'e' || e = 'E') = true := by simpa using he
  simp only [he', if_true] at h
  split at h
  · assumption
  · cases h

theorem reInt_eq {x : List Char} {n0 : Nat} (h0 : reSignedDigits x = some n0)
    (hm : ∀ e r, x.drop n0 = e :: '-' :: r → (e = 'e' ∨ e = 'E') → spanLen isDigit r = 0) :
    reInt x = some (n0 + reExpOpt (x.drop n0)) := by
  unfold reInt
  rw [h0]
  simp only
  generalize x.drop n0 = t at hm
  cases t with
  | nil => simp [reExpOpt]
  | cons e r =>
    simp only
    by_cases he : (e = 'e' || e = 'E') = true
    · simp only [he, if_true]
      have he' : e = 'e' ∨ e = 'E' := by simpa using he
      split
      · rw [reExpOpt]; simp only [he, if_true]
        split
        · simp [*]
        · simp only [Nat.add_assoc]
      · rename_i hp
        by_cases hmin : ∃ r3, r = '-' :: r3
        · obtain ⟨r3, rfl⟩ := hmin
          have := hm e r3 rfl he'
          rw [reExpOpt]; simp only [he, if_true]
          have hm' : isDigit '-' = false := by decide
          simp [this, spanLen, hm']
        · rw [reExpOpt_other e r (fun r3 h => hp r3 h) (fun r3 h => hmin ⟨r3, h⟩)]
          simp only [he, if_true]
          split
          · simp [*]
          · simp only [Option.some.injEq]; omega
    · have : reExpOpt (e :: r) = 0 := by
        unfold reExpOpt; simp only [he]; simp
      simp [he, this]
/-! ### the integer part -/

theorem ipart_other {inp : List Char} (h : ∀ r, inp ≠ '-' :: '0' :: r) : ipart inp =
    match Spec.intLit inp with
    | some (_, r) => some (inp.take (inp.length - r.length), r)
    | none => none := by
  unfold ipart
  split
  · exact absurd rfl (h _)
  · rfl

theorem digit_ne_minus {d : Char} (hd : isDigit d = true) : d ≠ '-' := by
  rintro rfl; revert hd; decide

theorem ipart_run {sg : List Char} {d : Char} {ds r : List Char} (hsg : sg = [] ∨ sg = ['-'])
    (hd : isDigit d = true) (hds : ∀ c ∈ ds, isDigit c = true) (hr : spanLen isDigit r = 0)
    (hz : d = '0' → ds = []) : ipart (sg ++ (d :: ds ++ r)) = some (sg ++ d :: ds, r) := by
  have hm := digit_ne_minus hd
  by_cases h0 : d = '0'
  · have := hz h0
    subst this; subst h0
    rcases hsg with rfl | rfl
    · rw [ipart_other (by intro r h; cases h)]
      simp only [List.nil_append, List.cons_append, intLit_zero]
      simp
    · rfl
  · have hD1 := digit1_of hd h0
    have hall : ∀ c ∈ d :: ds, isDigit c = true := by
      intro c hc; rcases List.mem_cons.mp hc with rfl | hc
      · exact hd
      · exact hds c hc
    have htw : (d :: (ds ++ r)).takeWhile Spec.isDIGIT = d :: ds := by
      have := takeWhile_run hall hr
      rw [isDIGIT_fun]; simpa using this
    rcases hsg with rfl | rfl
    · rw [ipart_other (by intro r h; simp only [List.nil_append, List.cons_append, List.cons.injEq] at h; exact hm h.1)]
      simp only [List.nil_append, List.cons_append]
      rw [intLit_other d _ h0 hm, if_pos hD1, htw]
      simp only [List.length_cons, List.drop_succ_cons, List.drop_left, List.length_append, Option.some.injEq, Prod.mk.injEq, and_true]
      rw [show ds.length + r.length + 1 - r.length = ds.length + 1 by omega]; simp
    · rw [ipart_other (by intro r h; simp only [List.cons_append, List.nil_append, List.cons.injEq] at h; exact h0 h.2.1)]
      simp only [List.nil_append, List.cons_append]
      rw [intLit_minus, if_pos hD1, htw]
      simp only [List.length_cons, List.drop_succ_cons, List.drop_left, List.length_append, Option.some.injEq, Prod.mk.injEq, and_true]
      rw [show ds.length + r.length + 1 + 1 - r.length = ds.length + 1 + 1 by omega]; simp
/-! ### `hasLeadingZero` -/

/-- the integer part of a number token as `hasLeadingZero` sees it -/
def lzBody (v : List Char) : Bool :=
  let ip := v.takeWhile (fun c => !(c = '.' || c = 'e' || c = 'E'))
  ip.length > 1 && ip.head? = some '0'

theorem hasLeadingZero_minus (r : List Char) : hasLeadingZero ('-' :: r) = lzBody r := rfl

theorem hasLeadingZero_other {v : List Char} (h : ∀ r, v ≠ '-' :: r) : hasLeadingZero v = lzBody v := by
  unfold hasLeadingZero
  split
  · exact absurd rfl (h _)
  · rfl

theorem digit_notSep {c : Char} (h : isDigit c = true) : (!(c = '.' || c = 'e' || c = 'E')) = true := by
  have h1 : c ≠ '.' := by rintro rfl; revert h; decide
  have h2 : c ≠ 'e' := by rintro rfl; revert h; decide
  have h3 : c ≠ 'E' := by rintro rfl; revert h; decide
  simp [h1, h2, h3]

theorem lzBody_run {d : Char} {ds t : List Char} (hd : isDigit d = true) (hds : ∀ c ∈ ds, isDigit c = true)
    (ht : ∀ c t', t = c :: t' → c = '.' ∨ c = 'e' ∨ c = 'E') :
    lzBody (d :: ds ++ t) = (decide (ds ≠ []) && decide (d = '0')) := by
  have hall : ∀ c ∈ d :: ds, (fun c : Char => !(c = '.' || c = 'e' || c = 'E')) c = true := by
    intro c hc; rcases List.mem_cons.mp hc with rfl | hc
    · exact digit_notSep hd
    · exact digit_notSep (hds c hc)
  have ht0 : spanLen (fun c : Char => !(c = '.' || c = 'e' || c = 'E')) t = 0 := by
    cases t with
    | nil => rfl
    | cons c t' =>
      rcases ht c t' rfl with rfl | rfl | rfl <;> simp [spanLen]
  unfold lzBody
  rw [takeWhile_run hall ht0]
  cases ds <;> simp

theorem hasLeadingZero_run {sg : List Char} {d : Char} {ds t : List Char} (hsg : sg = [] ∨ sg = ['-'])
    (hd : isDigit d = true) (hds : ∀ c ∈ ds, isDigit c = true)
    (ht : ∀ c t', t = c :: t' → c = '.' ∨ c = 'e' ∨ c = 'E')
    (h : hasLeadingZero (sg ++ (d :: ds ++ t)) = false) : d = '0' → ds = [] := by
  have hb : lzBody (d :: ds ++ t) = false := by
    rcases hsg with rfl | rfl
    · rwa [hasLeadingZero_other] at h
      intro r hr
      simp only [List.nil_append, List.cons_append, List.cons.injEq] at hr
      exact digit_ne_minus hd hr.1
    · exact h
  rw [lzBody_run hd hds ht] at hb
  intro h0
  simpa [h0] using hb
/-! ### the whole spelling -/

theorem fracLen_pos {r : List Char} (h : fracLen r ≠ 0) : ∃ t, r = '.' :: t := by
  cases r with
  | nil => exact absurd rfl h
  | cons c t =>
    by_cases hc : c = '.'
    · exact ⟨t, by rw [hc]⟩
    · exact absurd (fracLen_ne_dot t hc) h

/-- the shape of an exponent match -/
theorem reExpOpt_shape {r : List Char} (h : reExpOpt r ≠ 0) :
    ∃ e sg r3, r = e :: (sg ++ r3) ∧ (e = 'e' ∨ e = 'E') ∧ (sg = [] ∨ sg = ['+'] ∨ sg = ['-']) ∧
      spanLen isDigit r3 ≠ 0 ∧ reExpOpt r = 1 + sg.length + spanLen isDigit r3 := by
  cases r with
  | nil => exact absurd rfl h
  | cons e r2 =>
    by_cases he : (e = 'e' || e = 'E') = true
    · have he' : e = 'e' ∨ e = 'E' := by simpa using he
      by_cases hp : ∃ r3, r2 = '+' :: r3
      · obtain ⟨r3, rfl⟩ := hp
        rw [reExpOpt] at h ⊢; simp only [he, if_true] at h ⊢
        by_cases hd : spanLen isDigit r3 = 0
        · simp [hd] at h
        · exact ⟨e, ['+'], r3, rfl, he', Or.inr (Or.inl rfl), hd, by simp [hd]⟩
      · by_cases hm : ∃ r3, r2 = '-' :: r3
        · obtain ⟨r3, rfl⟩ := hm
          rw [reExpOpt] at h ⊢; simp only [he, if_true] at h ⊢
          by_cases hd : spanLen isDigit r3 = 0
          · simp [hd] at h
          · exact ⟨e, ['-'], r3, rfl, he', Or.inr (Or.inr rfl), hd, by simp [hd]⟩
        · rw [reExpOpt_other e r2 (fun r3 h => hp ⟨r3, h⟩) (fun r3 h => hm ⟨r3, h⟩)] at h ⊢
          simp only [he, if_true] at h ⊢
          by_cases hd : spanLen isDigit r2 = 0
          · simp [hd] at h
          · exact ⟨e, [], r2, rfl, he', Or.inl rfl, hd, by simp [hd]⟩
    · exfalso; apply h
      unfold reExpOpt; simp only [he]; simp

theorem take_prefix_add {α} (a r : List α) (k : Nat) : (a ++ r).take (a.length + k) = a ++ r.take k := by
  induction a with
  | nil => simp
  | cons c a ih => simp only [List.cons_append, List.length_cons]; rw [Nat.add_right_comm, List.take_succ_cons, ih]

theorem drop_prefix_add {α} (a r : List α) (k : Nat) : (a ++ r).drop (a.length + k) = r.drop k := by
  induction a with
  | nil => simp
  | cons c a ih => simp only [List.cons_append, List.length_cons]; rw [Nat.add_right_comm, List.drop_succ_cons, ih]

/-- the grammar reads sign, digits, fraction and exponent exactly as the scanners do -/
theorem numberSpelling_run {sg : List Char} {d : Char} {ds r : List Char} (hsg : sg = [] ∨ sg = ['-'])
    (hd : isDigit d = true) (hds : ∀ c ∈ ds, isDigit c = true) (hr : spanLen isDigit r = 0)
    (hz : d = '0' → ds = []) :
    Spec.numberSpelling (sg ++ (d :: ds ++ r)) =
      some ((sg ++ d :: ds) ++ r.take (fracLen r + reExpOpt (r.drop (fracLen r))),
        r.drop (fracLen r + reExpOpt (r.drop (fracLen r)))) := by
  rw [numberSpelling_eq, ipart_run hsg hd hds hr hz]
  simp only [fracPart_eq, expPart_eq]
  rw [List.take_add, List.drop_drop]
  simp [List.append_assoc]
/-! ### values -/

theorem floatOfText_nil : Py.floatOfText [] = none := by
  simp [Py.floatOfText, Py.parseDecimal, Py.allDigits]

theorem floatOfText_colon (t : List Char) : Py.floatOfText (':' :: t) = none := by
  have h : Py.parseDecimal (':' :: t) = none := by
    unfold Py.parseDecimal
    simp [Py.allDigits]
  simp [Py.floatOfText, h]

theorem litVal_float {tok : List Char} {k : Int} {v : Json} (h : litVal ⟨.float, tok, k⟩ = some v) :
    hasLeadingZero tok = false ∧ (Py.floatOfText tok).map Json.num = some v := by
  simp only [litVal] at h
  split at h
  · cases h
  · rename_i hz
    exact ⟨by simpa using hz, h⟩

theorem litVal_int {tok : List Char} {k : Int} {v : Json} (h : litVal ⟨.int, tok, k⟩ = some v) :
    hasLeadingZero tok = false ∧
      (match Py.intOfFloatText tok with
        | none => none
        | some (some i) => some (.num (Num.ofInt i))
        | some none => (Py.floatOfText tok).map Json.num) = some v := by
  simp only [litVal] at h
  split at h
  · cases h
  · rename_i hz
    exact ⟨by simpa using hz, h⟩

def negExp (l : List Char) : Bool :=
  match l with
  | _ :: '-' :: _ => true
  | _ => false

def isFloatSp (sp : List Char) : Bool :=
  sp.contains '.' || negExp (sp.dropWhile (fun c => !(c = 'e' || c = 'E')))

theorem numberValue_eq (sp : List Char) : Spec.numberValue sp =
    if isFloatSp sp then Py.floatOfText sp else
    match Py.intOfFloatText sp with
    | some (some i) => some (Num.ofInt i)
    | some none => Py.floatOfText sp
    | none => none := rfl

theorem literal_num {c : Char} (t : List Char) (hc : c = '-' ∨ isDigit c = true) :
    Spec.literal (c :: t) =
      match Spec.numberSpelling (c :: t) with
      | some (sp, r) => (Spec.numberValue sp).map (fun x => (.num x, r))
      | none => none := by
  have h1 : c ≠ '"' := by rcases hc with rfl | hc; decide; rintro rfl; revert hc; decide
  have h2 : c ≠ '\'' := by rcases hc with rfl | hc; decide; rintro rfl; revert hc; decide
  have h3 : c ≠ 't' := by rcases hc with rfl | hc; decide; rintro rfl; revert hc; decide
  have h4 : c ≠ 'f' := by rcases hc with rfl | hc; decide; rintro rfl; revert hc; decide
  have h5 : c ≠ 'n' := by rcases hc with rfl | hc; decide; rintro rfl; revert hc; decide
  have hs : Spec.stringLiteral (c :: t) = none := by
    rw [Spec.stringLiteral]
    · intro r h; simp only [List.cons.injEq] at h; exact h1 h.1
    · intro r h; simp only [List.cons.injEq] at h; exact h2 h.1
  have ht : Spec.lit "true" (c :: t) = none := by
    simp [Spec.lit, List.isPrefixOf]; intro h; exact absurd h.symm h3
  have hf : Spec.lit "false" (c :: t) = none := by
    simp [Spec.lit, List.isPrefixOf]; intro h; exact absurd h.symm h4
  have hn : Spec.lit "null" (c :: t) = none := by
    simp [Spec.lit, List.isPrefixOf]; intro h; exact absurd h.symm h5
  rw [Spec.literal, hs, ht, hf, hn]
  rfl

/-- sign or digit -/
def SD (c : Char) : Prop := c = '-' ∨ isDigit c = true

theorem SD.ne_dot {c : Char} (h : SD c) : c ≠ '.' := by
  rcases h with rfl | h; decide; rintro rfl; revert h; decide
theorem SD.notE {c : Char} (h : SD c) : (!(c = 'e' || c = 'E')) = true := by
  have h1 : c ≠ 'e' := by rcases h with rfl | h; decide; rintro rfl; revert h; decide
  have h2 : c ≠ 'E' := by rcases h with rfl | h; decide; rintro rfl; revert h; decide
  simp [h1, h2]

theorem isFloatSp_dot (a b : List Char) : isFloatSp (a ++ '.' :: b) = true := by
  simp [isFloatSp]

theorem isFloatSp_neg {a : List Char} (ha : ∀ c ∈ a, SD c) {e : Char} (he : e = 'e' ∨ e = 'E')
    (b : List Char) : isFloatSp (a ++ e :: '-' :: b) = true := by
  unfold isFloatSp
  rw [List.dropWhile_append_of_pos (fun c hc => (ha c hc).notE)]
  have : (!(e = 'e' || e = 'E')) = false := by rcases he with rfl | rfl <;> decide
  simp [List.dropWhile, this, negExp]

theorem isFloatSp_sd {a : List Char} (ha : ∀ c ∈ a, SD c) : isFloatSp a = false := by
  unfold isFloatSp
  have h1 : a.contains '.' = false := by
    rw [Bool.eq_false_iff]; intro h
    rw [List.contains_iff_mem] at h
    exact (ha _ h).ne_dot rfl
  have h2 : a.dropWhile (fun c => !(c = 'e' || c = 'E')) = [] := by
    have := List.dropWhile_append_of_pos (l₂ := []) (fun c hc => (ha c hc).notE)
    simpa using this
  rw [h1, h2]; rfl

theorem isFloatSp_pos {a : List Char} (ha : ∀ c ∈ a, SD c) {e : Char} (he : e = 'e' ∨ e = 'E')
    {sg dd : List Char} (hsg : sg = [] ∨ sg = ['+']) (hdd : ∀ c ∈ dd, isDigit c = true) :
    isFloatSp (a ++ e :: (sg ++ dd)) = false := by
  unfold isFloatSp
  have h1 : (a ++ e :: (sg ++ dd)).contains '.' = false := by
    rw [Bool.eq_false_iff]; intro h
    rw [List.contains_iff_mem] at h
    simp only [List.mem_append, List.mem_cons] at h
    rcases h with h | h | h | h
    · exact (ha _ h).ne_dot rfl
    · rcases he with rfl | rfl <;> cases h
    · rcases hsg with rfl | rfl <;> simp at h
    · have := hdd _ h; revert this; decide
  rw [h1, List.dropWhile_append_of_pos (fun c hc => (ha c hc).notE)]
  have : (!(e = 'e' || e = 'E')) = false := by rcases he with rfl | rfl <;> decide
  simp only [List.dropWhile, this, Bool.false_or]
  rcases hsg with rfl | rfl
  · cases dd with
    | nil => rfl
    | cons d1 dd =>
      have hd1 : d1 ≠ '-' := digit_ne_minus (hdd d1 (by simp))
      simp only [List.nil_append]
      unfold negExp
      split
      · rename_i h; simp only [List.cons.injEq] at h; exact absurd h.2.1 hd1
      · rfl
  · rfl
/-! ### a number token against `Spec.literal` -/

/-- canonical form of the input at a `-?[0-9]+` match -/
theorem canon {x : List Char} {n0 : Nat} (h0 : reSignedDigits x = some n0) :
    ∃ sg d ds r, x = sg ++ (d :: ds ++ r) ∧ (sg = [] ∨ sg = ['-']) ∧ isDigit d = true ∧
      (∀ c ∈ ds, isDigit c = true) ∧ spanLen isDigit r = 0 ∧ x.drop n0 = r ∧
      (∀ k, x.take (n0 + k) = (sg ++ d :: ds) ++ r.take k) ∧ (∀ k, x.drop (n0 + k) = r.drop k) := by
  obtain ⟨sg, d, ds, r, rfl, hsg, hd, hds, hr, rfl⟩ := reSignedDigits_inv h0
  have e : sg ++ (d :: ds ++ r) = (sg ++ d :: ds) ++ r := by simp
  have l : sg.length + (ds.length + 1) = (sg ++ d :: ds).length := by simp
  refine ⟨sg, d, ds, r, rfl, hsg, hd, hds, hr, ?_, ?_, ?_⟩
  · rw [e, l, List.drop_left]
  · intro k; rw [e, l, take_prefix_add]
  · intro k; rw [e, l, drop_prefix_add]

theorem head_take {c0 c : Char} {r t' : List Char} {k : Nat} (h : (c0 :: r).take k = c :: t') : c = c0 := by
  cases k with
  | zero => cases h
  | succ k => simp only [List.take_succ_cons, List.cons.injEq] at h; exact h.1.symm

theorem tail_head {r : List Char} {c : Char} {t' : List Char}
    (h : r.take (fracLen r + reExpOpt (r.drop (fracLen r))) = c :: t') : c = '.' ∨ c = 'e' ∨ c = 'E' := by
  by_cases hfl : fracLen r = 0
  · rw [hfl] at h
    simp only [List.drop_zero, Nat.zero_add] at h
    by_cases hel : reExpOpt r = 0
    · rw [hel] at h; cases h
    · obtain ⟨e, sg, r3, hr, he, -⟩ := reExpOpt_shape hel
      rw [hr] at h
      have := head_take h
      rw [this]; exact Or.inr he
  · obtain ⟨t, ht⟩ := fracLen_pos hfl
    rw [ht] at h
    exact Or.inl (head_take h)

theorem literal_core {x : List Char} {n0 n : Nat} (h0 : reSignedDigits x = some n0)
    (hn : n = n0 + (fracLen (x.drop n0) + reExpOpt (x.drop (n0 + fracLen (x.drop n0)))))
    (hz : hasLeadingZero (x.take n) = false) :
    Spec.literal x = (Spec.numberValue (x.take n)).map (fun v => (.num v, x.drop n)) := by
  obtain ⟨sg, d, ds, r, hx, hsg, hd, hds, hr, hdr, htk, hdk⟩ := canon h0
  rw [hdk, hdr] at hn
  subst hn
  rw [htk] at hz ⊢
  rw [hdk]
  have hzero : d = '0' → ds = [] := by
    apply hasLeadingZero_run hsg hd hds (fun c t' h => tail_head h)
    simpa using hz
  have hsp := numberSpelling_run hsg hd hds hr hzero
  rw [← hx] at hsp
  have hc : ∃ c t, x = c :: t ∧ (c = '-' ∨ isDigit c = true) := by
    rcases hsg with rfl | rfl
    · exact ⟨d, ds ++ r, by simpa using hx, Or.inr hd⟩
    · exact ⟨'-', d :: ds ++ r, by simpa using hx, Or.inl rfl⟩
  obtain ⟨c, t, hct, hc⟩ := hc
  rw [hct, literal_num t hc, ← hct, hsp]

theorem sd_prefix {sg : List Char} {d : Char} {ds : List Char} (hsg : sg = [] ∨ sg = ['-'])
    (hd : isDigit d = true) (hds : ∀ c ∈ ds, isDigit c = true) : ∀ c ∈ sg ++ d :: ds, SD c := by
  intro c hc
  simp only [List.mem_append, List.mem_cons] at hc
  rcases hc with hc | rfl | hc
  · rcases hsg with rfl | rfl
    · cases hc
    · simp only [List.mem_singleton] at hc; exact Or.inl hc
  · exact Or.inr hd
  · exact Or.inr (hds c hc)

theorem isFloat_frac {x : List Char} {n0 n : Nat} (h0 : reSignedDigits x = some n0)
    (hn : n = n0 + (fracLen (x.drop n0) + reExpOpt (x.drop (n0 + fracLen (x.drop n0)))))
    (hfl : fracLen (x.drop n0) ≠ 0) : isFloatSp (x.take n) = true := by
  obtain ⟨sg, d, ds, r, hx, hsg, hd, hds, hr, hdr, htk, hdk⟩ := canon h0
  rw [hdk, hdr] at hn
  rw [hdr] at hfl
  subst hn
  rw [htk]
  obtain ⟨t, rfl⟩ := fracLen_pos hfl
  obtain ⟨k, hk⟩ : ∃ k, fracLen ('.' :: t) + reExpOpt (('.' :: t).drop (fracLen ('.' :: t))) = k + 1 :=
    ⟨fracLen ('.' :: t) + reExpOpt (('.' :: t).drop (fracLen ('.' :: t))) - 1, by omega⟩
  rw [hk, List.take_succ_cons]
  exact isFloatSp_dot _ _

theorem reExpOpt_minus {e : Char} (he : e = 'e' ∨ e = 'E') (r : List Char) :
    reExpOpt (e :: '-' :: r) = if spanLen isDigit r = 0 then 0 else 1 + 1 + spanLen isDigit r := by
  have he' : (e = 'e' || e = 'E') = true := by simpa using he
  rw [reExpOpt]; simp only [he', if_true]

theorem isFloat_negexp {x : List Char} {n0 n : Nat} (h0 : reSignedDigits x = some n0)
    (hn : n = n0 + (fracLen (x.drop n0) + reExpOpt (x.drop (n0 + fracLen (x.drop n0)))))
    {e : Char} {r' : List Char} (hd : x.drop n0 = e :: '-' :: r') (he : e = 'e' ∨ e = 'E')
    (hel : spanLen isDigit r' ≠ 0) : isFloatSp (x.take n) = true := by
  obtain ⟨sg, d, ds, r, hx, hsg, hd', hds, hr, hdr, htk, hdk⟩ := canon h0
  rw [hdk, hdr] at hn
  rw [hdr] at hd
  subst hd
  have hne : e ≠ '.' := by rcases he with rfl | rfl <;> decide
  rw [fracLen_ne_dot _ hne, List.drop_zero, Nat.zero_add, reExpOpt_minus he, if_neg hel] at hn
  subst hn
  rw [htk, show 1 + 1 + spanLen isDigit r' = spanLen isDigit r' + 1 + 1 by omega, List.take_succ_cons,
    List.take_succ_cons]
  exact isFloatSp_neg (sd_prefix hsg hd' hds) he _

theorem isFloat_int {x : List Char} {n0 n : Nat} (h0 : reSignedDigits x = some n0)
    (hn : n = n0 + (fracLen (x.drop n0) + reExpOpt (x.drop (n0 + fracLen (x.drop n0)))))
    (hfl : fracLen (x.drop n0) = 0)
    (hm : ∀ e r', x.drop n0 = e :: '-' :: r' → (e = 'e' ∨ e = 'E') → spanLen isDigit r' = 0) :
    isFloatSp (x.take n) = false := by
  obtain ⟨sg, d, ds, r, hx, hsg, hd, hds, hr, hdr, htk, hdk⟩ := canon h0
  rw [hdk, hdr] at hn
  rw [hdr] at hfl hm
  rw [hfl, List.drop_zero, Nat.zero_add] at hn
  subst hn
  rw [htk]
  have hsd := sd_prefix hsg hd hds
  by_cases hel : reExpOpt r = 0
  · rw [hel, List.take_zero, List.append_nil]
    exact isFloatSp_sd hsd
  · obtain ⟨e, sg', r3, rfl, he, hsg', hd3, hlen⟩ := reExpOpt_shape hel
    have hsg'' : sg' = [] ∨ sg' = ['+'] := by
      rcases hsg' with h | h | h
      · exact Or.inl h
      · exact Or.inr h
      · subst h; exact absurd (hm e r3 rfl he) hd3
    rw [hlen, show 1 + sg'.length + spanLen isDigit r3 = (sg'.length + spanLen isDigit r3) + 1 by omega,
      List.take_succ_cons, take_prefix_add]
    apply isFloatSp_pos hsd he hsg''
    rw [take_spanLen]
    exact takeWhile_all _ _
end JPV.Proofs.Sf
