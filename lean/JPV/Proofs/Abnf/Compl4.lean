/-
Completeness, `Basic`: paren / not-paren / test / not-test / comparison.
-/
import JPV.Proofs.Abnf.Compl3
namespace JPV.Proofs.AbnfP
open JPV JPV.Spec

/-- the generic branch of `basic`, for inputs not starting with `!` or `(` -/
theorem basic_generic {f : Nat} {c : Char} {t : List Char} (h1 : c ≠ '!') (h2 : c ≠ '(') :
    basic (f + 1) (c :: t) =
      match term f (c :: t) with
      | none => none
      | some (l, r) =>
        match comparisonOp (skipS r) with
        | some (op, r2) =>
          match term f (skipS r2) with
          | some (rhs, r3) => some (.cmp op l rhs, r3)
          | none => none
        | none =>
          match l with
          | .lit _ => none
          | _ => some (l, r) := by
  rw [basic]
  all_goals first
    | rfl
    | (intro r h; simp only [List.cons.injEq] at h; first | exact h1 h.1 | exact h2 h.1)

theorem cBasic_paren {l : Bool} {s : List Char} {e : CExpr} (hs : Abnf.Paren l s e) (ih : CParen s e) :
    CBasic s e := by
  intro R fuel _ hf
  obtain ⟨f, rfl⟩ : ∃ f, fuel = f + 1 := ⟨fuel - 1, by omega⟩
  obtain ⟨t, rfl⟩ := paren_head hs
  obtain ⟨e', h1, hn⟩ := ih R f (by omega)
  refine ⟨e', ?_, hn⟩
  simp only [List.cons_append] at h1 ⊢
  rw [basic, h1]

theorem stopBasic_no_cmp {R : List Char} (hR : SFol StopBasic R) : comparisonOp (skipS R) = none :=
  comparisonOp_none (HeadP.mono hR (fun c hc => by
    rcases hc with ((h | h | h) | h) | h <;> subst h <;> decide))

theorem cBasic_notParen {l : Bool} {b s : List Char} {e : CExpr} (hb : Abnf.Blanks b)
    (hs : Abnf.Paren l s e) (ih : CParen s e) : CBasic ('!' :: (b ++ s)) (.not e) := by
  intro R fuel _ hf
  simp only [List.length_append, List.length_cons] at hf
  obtain ⟨f, rfl⟩ : ∃ f, fuel = f + 1 := ⟨fuel - 1, by omega⟩
  obtain ⟨t, rfl⟩ := paren_head hs
  obtain ⟨e', h1, hn⟩ := ih R f (by simp only [List.length_cons] at hf ⊢; omega)
  have hinp : ('!' :: (b ++ '(' :: t)) ++ R = '!' :: (b ++ '(' :: (t ++ R)) := by simp
  rw [hinp]
  have hcmp : comparisonOp ('!' :: (b ++ '(' :: (t ++ R))) = none := by
    apply comparisonOp_bang
    cases b with
    | nil => exact HeadP.cons (by decide)
    | cons x xs =>
      refine HeadP.cons ?_
      have := hb x List.mem_cons_self
      intro h; subst h; revert this; decide
  have hsk : skipS (b ++ '(' :: (t ++ R)) = '(' :: (t ++ R) := skipS_blanks_cons hb (by decide) _
  refine ⟨.not e', ?_, by simp only [normExpr, hn]⟩
  simp only [List.cons_append] at h1
  rw [basic]
  simp only [hcmp, hsk, h1, Option.map_some]

theorem testItem_not_lit {l : Bool} {s : List Char} {e : CExpr} (h : Abnf.TestItem l s e) : ∀ v, e ≠ .lit v := by
  intro v hv
  subst hv
  cases h with
  | call hf => cases hf

theorem cBasic_test {l : Bool} {s : List Char} {e : CExpr} (hs : Abnf.TestItem l s e) (ih : CTerm s e) :
    CBasic s e := by
  intro R fuel hR hf
  obtain ⟨f, rfl⟩ : ∃ f, fuel = f + 1 := ⟨fuel - 1, by omega⟩
  have hne0 := testItem_not_lit hs
  obtain ⟨ch, t, rfl, hch⟩ := testItem_termStart hs
  obtain ⟨e', h1, hn⟩ := ih R f (hR.mono fun _ h => h.term) (by omega)
  have hne : ∀ v, e' ≠ .lit v := normExpr_ne_lit hn hne0
  refine ⟨e', ?_, hn⟩
  simp only [List.cons_append] at h1 ⊢
  rw [basic_generic hch.facts.2.2 hch.facts.2.1, h1]
  simp only [stopBasic_no_cmp hR]
  all_goals
    split
    · exact absurd rfl (hne _)
    · rfl

theorem cBasic_notTest {l : Bool} {b s : List Char} {e : CExpr} (hb : Abnf.Blanks b)
    (hs : Abnf.TestItem l s e) (ih : CTerm s e) : CBasic ('!' :: (b ++ s)) (.not e) := by
  intro R fuel hR hf
  simp only [List.length_append, List.length_cons] at hf
  obtain ⟨f, rfl⟩ : ∃ f, fuel = f + 1 := ⟨fuel - 1, by omega⟩
  have hne0 := testItem_not_lit hs
  obtain ⟨ch, t, rfl, hch⟩ := testItem_termStart hs
  obtain ⟨e', h1, hn⟩ := ih R f (hR.mono fun _ h => h.term) (by simp only [List.length_cons] at hf ⊢; omega)
  have hne : ∀ v, e' ≠ .lit v := normExpr_ne_lit hn hne0
  have hinp : ('!' :: (b ++ ch :: t)) ++ R = '!' :: (b ++ ch :: (t ++ R)) := by simp
  rw [hinp]
  have hcmp : comparisonOp ('!' :: (b ++ ch :: (t ++ R))) = none := by
    apply comparisonOp_bang
    cases b with
    | nil => exact HeadP.cons hch.facts.1.ne_eq
    | cons x xs =>
      refine HeadP.cons ?_
      have := hb x List.mem_cons_self
      intro h; subst h; revert this; decide
  have hsk : skipS (b ++ ch :: (t ++ R)) = ch :: (t ++ R) := skipS_blanks_cons hb hch.facts.1.notBlank _
  refine ⟨.not e', ?_, by simp only [normExpr, hn]⟩
  simp only [List.cons_append] at h1
  rw [basic]
  simp only [hcmp, hsk]
  split
  · rename_i heq; simp only [List.cons.injEq] at heq; exact absurd heq.1 hch.facts.2.1
  · rw [h1]
    split
    · rename_i heq; simp only [Option.some.injEq, Prod.mk.injEq] at heq; exact absurd heq.1 (hne _)
    · rename_i heq; simp only [Option.some.injEq, Prod.mk.injEq] at heq
      obtain ⟨rfl, rfl⟩ := heq; rfl
    · rename_i heq; cases heq

theorem cBasic_cmp {l : Bool} {s1 b1 o b2 s2 : List Char} {op : COp} {el er : CExpr}
    (h1 : Abnf.Comparable l s1 el) (hb1 : Abnf.Blanks b1) (ho : Abnf.CompOp o op) (hb2 : Abnf.Blanks b2)
    (h2 : Abnf.Comparable l s2 er) (ih1 : CTerm s1 el) (ih2 : CTerm s2 er) :
    CBasic (s1 ++ b1 ++ o ++ b2 ++ s2) (.cmp op el er) := by
  intro R fuel hR hf
  simp only [List.length_append] at hf
  obtain ⟨f, rfl⟩ : ∃ f, fuel = f + 1 := ⟨fuel - 1, by omega⟩
  obtain ⟨c1, t1, rfl, hc1⟩ := comparable_head h1
  obtain ⟨c2, t2, rfl, hc2⟩ := comparable_head h2
  obtain ⟨co, to, rfl, hco⟩ := compOp_head ho
  have hinp : (c1 :: t1 ++ b1 ++ co :: to ++ b2 ++ c2 :: t2) ++ R =
      c1 :: (t1 ++ (b1 ++ (co :: to ++ (b2 ++ (c2 :: t2 ++ R))))) := by simp
  rw [hinp]
  have hcoB : isBlank co = false ∧ StopTerm co := by
    rcases hco with h | h | h | h <;> subst h <;> exact ⟨by decide, by simp [StopTerm]⟩
  obtain ⟨l', e1, hn1⟩ := ih1 (b1 ++ (co :: to ++ (b2 ++ (c2 :: t2 ++ R)))) f
    (SFol.of_blanks hb1 hcoB.1 hcoB.2) (by simp only [List.length_cons] at hf ⊢; omega)
  have hsk1 : skipS (b1 ++ (co :: to ++ (b2 ++ (c2 :: t2 ++ R)))) = co :: to ++ (b2 ++ (c2 :: t2 ++ R)) :=
    skipS_blanks_cons hb1 hcoB.1 _
  have hop : comparisonOp (co :: to ++ (b2 ++ (c2 :: t2 ++ R))) = some (op, b2 ++ (c2 :: t2 ++ R)) := by
    apply comparisonOp_complete ho
    cases b2 with
    | nil => exact HeadP.cons hc2.facts.1.ne_eq
    | cons x xs =>
      refine HeadP.cons ?_
      have := hb2 x List.mem_cons_self
      intro h; subst h; revert this; decide
  have hsk2 : skipS (b2 ++ (c2 :: t2 ++ R)) = c2 :: t2 ++ R := skipS_blanks_cons hb2 hc2.facts.1.notBlank _
  obtain ⟨r', e2, hn2⟩ := ih2 R f (hR.mono fun _ h => h.term) (by simp only [List.length_cons] at hf ⊢; omega)
  refine ⟨.cmp op l' r', ?_, by simp only [normExpr, hn1, hn2]⟩
  simp only [List.cons_append] at e1 ⊢
  rw [basic_generic hc1.facts.2.2 hc1.facts.2.1, e1]
  simp only [List.cons_append] at hsk1 hop hsk2 e2
  simp only [hsk1, hop, hsk2, e2]

end JPV.Proofs.AbnfP
