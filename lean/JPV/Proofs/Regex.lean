import JPV.Impl.Regex
import JPV.Spec.IRegexp
namespace JPV.Proofs
open JPV JPV.Impl JPV.Spec.IRe

/-- The grammar-directed description of the rewrite: walk the pattern as the RFC 9485 grammar
reads it — an escape `\x` (incl. `\p{..}`) is copied, a character class `[...]` is copied up to its
closing bracket (escapes inside it copied as pairs), a dot atom becomes the group, anything else is
copied. -/
def translateClass : List Char → List Char × List Char
  | [] => ([], [])
  | ']' :: r => ([']'], r)
  | '\\' :: c :: r => let (a, b) := translateClass r; ('\\' :: c :: a, b)
  | c :: r => let (a, b) := translateClass r; (c :: a, b)

def translateDotsFuel : Nat → List Char → List Char
  | 0, p => p
  | _ + 1, [] => []
  | f + 1, '\\' :: c :: r => '\\' :: c :: translateDotsFuel f r
  | f + 1, '[' :: r => let (a, b) := translateClass r; '[' :: a ++ translateDotsFuel f b
  | f + 1, '.' :: r => Impl.dotGroup ++ translateDotsFuel f r
  | f + 1, c :: r => c :: translateDotsFuel f r

def translateDots (p : List Char) : List Char := translateDotsFuel (p.length + 1) p

/-- language membership for I-Regexp ASTs -/
inductive Matches : Re → List CChar → Prop
  | eps : Matches .eps []
  | chr (k : Nat) (c : CChar) : c.1.toNat = k → Matches (.chr k) [c]
  | dot (c : CChar) : c.1 ≠ '\n' → c.1 ≠ '\r' → Matches .dot [c]
  | cls (neg : Bool) (items : List CCItem) (c : CChar) : (items.any (itemMatches c) != neg) = true → Matches (.cls neg items) [c]
  | cat (neg : Bool) (p : Str) (c : CChar) : (propMatches p c.2 != neg) = true → Matches (.cat neg p) [c]
  | seq (a b : Re) (s t : List CChar) : Matches a s → Matches b t → Matches (.seq a b) (s ++ t)
  | altL (a b : Re) (s : List CChar) : Matches a s → Matches (.alt a b) s
  | altR (a b : Re) (s : List CChar) : Matches b s → Matches (.alt a b) s
  /-- zero iterations, allowed when the lower bound is 0 -/
  | repNil (r : Re) (hi : Option Nat) : Matches (.rep r 0 hi) []
  /-- one more iteration (upper bound, if any, at least 1) -/
  | repCons (r : Re) (lo : Nat) (hi : Option Nat) (s t : List CChar) :
      (∀ h, hi = some h → 0 < h) → Matches r s → Matches (.rep r (lo - 1) (hi.map (· - 1))) t →
      Matches (.rep r lo hi) (s ++ t)

namespace Rx

theorem matchBody_nonstr (eng : Engines) (subject pattern : Obj) (h : ∀ p, pattern ≠ .val (.str p)) :
    matchBody eng [subject, pattern] = .ok (.val (.bool false)) := by
  rcases pattern with _ | _ | j
  · rfl
  · rfl
  · cases j <;> first | rfl | exact absurd rfl (h _)

theorem searchBody_nonstr (eng : Engines) (subject pattern : Obj) (h : ∀ p, pattern ≠ .val (.str p)) :
    searchBody eng [subject, pattern] = .ok (.val (.bool false)) := by
  rcases pattern with _ | _ | j
  · rfl
  · rfl
  · cases j <;> first | rfl | exact absurd rfl (h _)

theorem matchBody_str (eng : Engines) (subject : Obj) (p : Str) :
    matchBody eng [subject, .val (.str p)] =
      if !eng.check p then .ok (.val (.bool false)) else
      (match subject with
       | .val (.str s) => .ok (.val (.bool ((eng.fullmatch (mapRe p) s).getD false)))
       | _ => .ok (.val (.bool false))) := rfl

theorem searchBody_str (eng : Engines) (subject : Obj) (p : Str) :
    searchBody eng [subject, .val (.str p)] =
      if !eng.check p then .ok (.val (.bool false)) else
      (match subject with
       | .val (.str s) => .ok (.val (.bool ((eng.search (mapRe p) s).getD false)))
       | _ => .ok (.val (.bool false))) := rfl

theorem pattern_cases (pattern : Obj) : (∃ p, pattern = .val (.str p)) ∨ (∀ p, pattern ≠ .val (.str p)) := by
  rcases pattern with _ | _ | j
  · right; intro p h; cases h
  · right; intro p h; cases h
  · cases j <;> first | (left; exact ⟨_, rfl⟩) | (right; intro p h; cases h)

end Rx
open Rx

theorem regex_logic (eng : Engines) (subject pattern : Obj) :
    (∃ b, matchBody eng [subject, pattern] = .ok (.val (.bool b))) ∧
    (∃ b, searchBody eng [subject, pattern] = .ok (.val (.bool b))) ∧
    ((∀ p, pattern ≠ .val (.str p)) → matchBody eng [subject, pattern] = .ok (.val (.bool false)) ∧
        searchBody eng [subject, pattern] = .ok (.val (.bool false))) ∧
    (∀ p, pattern = .val (.str p) → eng.check p = false →
        matchBody eng [subject, pattern] = .ok (.val (.bool false)) ∧ searchBody eng [subject, pattern] = .ok (.val (.bool false))) ∧
    ((∀ s, subject ≠ .val (.str s)) → matchBody eng [subject, pattern] = .ok (.val (.bool false)) ∧
        searchBody eng [subject, pattern] = .ok (.val (.bool false))) := by
  refine ⟨?_, ?_, ?_, ?_, ?_⟩
  · rcases pattern_cases pattern with ⟨p, rfl⟩ | h
    · rw [matchBody_str]
      split
      · exact ⟨_, rfl⟩
      · split <;> exact ⟨_, rfl⟩
    · exact ⟨_, matchBody_nonstr eng subject pattern h⟩
  · rcases pattern_cases pattern with ⟨p, rfl⟩ | h
    · rw [searchBody_str]
      split
      · exact ⟨_, rfl⟩
      · split <;> exact ⟨_, rfl⟩
    · exact ⟨_, searchBody_nonstr eng subject pattern h⟩
  · intro h
    exact ⟨matchBody_nonstr eng subject pattern h, searchBody_nonstr eng subject pattern h⟩
  · intro p hp hc
    subst hp
    rw [matchBody_str, searchBody_str]
    simp [hc]
  · intro h
    rcases pattern_cases pattern with ⟨p, rfl⟩ | hp
    · rw [matchBody_str, searchBody_str]
      constructor
      · split
        · rfl
        · split
          · exact absurd rfl (h _)
          · rfl
      · split
        · rfl
        · split
          · exact absurd rfl (h _)
          · rfl
    · exact ⟨matchBody_nonstr eng subject pattern hp, searchBody_nonstr eng subject pattern hp⟩

namespace Rx

theorem translateClass_len (s : List Char) : (translateClass s).2.length ≤ s.length := by
  fun_induction translateClass s <;> simp_all <;> omega

theorem mapReGo_class (s : List Char) :
    mapReGo false true s = (translateClass s).1 ++ mapReGo false false (translateClass s).2 := by
  fun_induction translateClass s
  · simp [mapReGo]
  · simp [mapReGo]
  · rename_i c r a b h ih
    simp [mapReGo, h] at ih ⊢
    exact ih
  · rename_i c r h1 h2 a b h ih
    simp only [h] at ih ⊢
    by_cases hd : c = '.'
    · subst hd; simp [mapReGo, ih]
    · by_cases hb : c = '\\'
      · subst hb
        cases r with
        | nil =>
          simp [translateClass] at h
          obtain ⟨rfl, rfl⟩ := h
          simp [mapReGo]
        | cons d r => exact absurd rfl (h2 d r rfl)
      · by_cases hl : c = '['
        · subst hl; simp [mapReGo, ih]
        · have h1' : ¬ c = ']' := h1
          simp [mapReGo, hd, hb, hl, h1', ih]

theorem tdf_nil (f : Nat) : translateDotsFuel (f+1) [] = [] := rfl
theorem tdf_esc (f : Nat) (c : Char) (r : List Char) :
    translateDotsFuel (f+1) ('\\' :: c :: r) = '\\' :: c :: translateDotsFuel f r := rfl
theorem tdf_cls (f : Nat) (r : List Char) :
    translateDotsFuel (f+1) ('[' :: r) = '[' :: (translateClass r).1 ++ translateDotsFuel f (translateClass r).2 := rfl
theorem tdf_dot (f : Nat) (r : List Char) :
    translateDotsFuel (f+1) ('.' :: r) = Impl.dotGroup ++ translateDotsFuel f r := rfl
theorem tdf_other (f : Nat) (c : Char) (r : List Char) (h1 : c ≠ '[') (h2 : c ≠ '.')
    (h3 : c = '\\' → r = []) :
    translateDotsFuel (f+1) (c :: r) = c :: translateDotsFuel f r := by
  rw [translateDotsFuel.eq_def]
  split <;> simp_all

theorem mapReGo_fuel (f : Nat) : ∀ p : List Char, p.length < f → mapReGo false false p = translateDotsFuel f p := by
  induction f with
  | zero => intro p h; omega
  | succ f ih =>
    intro p hp
    match p with
    | [] => simp [mapReGo, tdf_nil]
    | c :: r =>
      have ihr : mapReGo false false r = translateDotsFuel f r := by
        apply ih; simp at hp; omega
      by_cases hb : c = '\\'
      · subst hb
        cases r with
        | nil => cases f <;> simp [mapReGo, translateDotsFuel]
        | cons d r =>
          rw [tdf_esc]
          simp [mapReGo]
          apply ih; simp at hp; omega
      · by_cases hl : c = '['
        · subst hl
          rw [tdf_cls]
          simp [mapReGo]
          rw [mapReGo_class]
          simp
          apply ih
          have := translateClass_len r
          simp at hp; omega
        · by_cases hd : c = '.'
          · subst hd
            rw [tdf_dot]
            simp [mapReGo, ihr]
          · rw [tdf_other f c r hl hd (fun h => absurd h hb)]
            by_cases hr : c = ']'
            · subst hr; simp [mapReGo, ihr]
            · simp [mapReGo, hl, hd, hb, hr, ihr]

end Rx

theorem mapRe_translation (p : Str) (h : (Spec.IRe.parse p).isSome = true) :
    Impl.mapRe p = translateDots p := by
  have _ := h
  exact Rx.mapReGo_fuel _ p (Nat.lt_succ_self _)

/-- every counted repetition has its lower bound below its upper bound (true of every parsed pattern) -/
def reOk : Re → Bool
  | .seq a b => reOk a && reOk b
  | .alt a b => reOk a && reOk b
  | .rep r lo (some hi) => decide (lo ≤ hi) && reOk r
  | .rep r _ none => reOk r
  | _ => true

namespace Rx

theorem classExpr_reOk (inp : List Char) (e : Re) (r : List Char) (h : classExpr inp = some (e, r)) :
    reOk e = true := by
  unfold classExpr at h
  simp only at h
  split at h
  · cases h
  · simp only [Option.map_eq_some_iff] at h
    obtain ⟨a, _, ha⟩ := h
    cases ha; rfl
  · simp only [Option.map_eq_some_iff] at h
    obtain ⟨a, _, ha⟩ := h
    cases ha; rfl

theorem parse_fuel_reOk (fuel : Nat) :
    (∀ inp e r, parseAlt fuel inp = some (e, r) → reOk e = true) ∧
    (∀ inp acc e r, reOk acc = true → parseBranch fuel inp acc = some (e, r) → reOk e = true) := by
  induction fuel with
  | zero => 
    constructor
    · intro inp e r h; simp [parseAlt] at h
    · intro inp acc e r _ h; simp [parseBranch] at h
  | succ fuel ih =>
    obtain ⟨ihA, ihB⟩ := ih
    constructor
    · intro inp e r h
      rw [parseAlt] at h
      split at h
      · cases h
      · rename_i b r' hb
        have hbo := ihB _ _ _ _ rfl hb
        split at h
        · simp only [Option.map_eq_some_iff] at h
          obtain ⟨a, ha, hh⟩ := h
          cases hh
          have := ihA _ _ _ ha
          simp [reOk, hbo, this]
        · cases h; exact hbo
    · intro inp acc e r hacc h
      rw [parseBranch.eq_def] at h
      simp only at h
      split at h
      · split at h <;> first | (cases h; exact hacc) | cases h
      · rename_i a r' hatom
        have ha : reOk a = true := by
          split at hatom
          · split at hatom
            · rename_i e r2 he
              cases hatom
              exact ihA _ _ _ he
            · cases hatom
          · cases hatom; rfl
          · exact classExpr_reOk _ _ _ hatom
          · split at hatom
            · cases hatom; rfl
            · simp only [Option.map_eq_some_iff] at hatom
              obtain ⟨n, _, hn⟩ := hatom
              cases hn; rfl
          · split at hatom
            · cases hatom; rfl
            · cases hatom
          · cases hatom
        split at h
        · split at h
          · split at h
            · rename_i hle
              refine ihB _ _ _ _ ?_ h
              simp [reOk, hacc, ha, hle]
            · cases h
          · refine ihB _ _ _ _ ?_ h
            simp [reOk, hacc, ha]
        · split at h <;> first | cases h | skip
          refine ihB _ _ _ _ ?_ h
          simp [reOk, hacc, ha]

end Rx
open Rx

theorem parse_reOk (p : Str) (r : Re) (h : Spec.IRe.parse p = some r) : reOk r = true := by
  unfold Spec.IRe.parse at h
  split at h
  · rename_i e he
    cases h
    exact (parse_fuel_reOk _).1 _ _ _ he
  · cases h

namespace Rx

/-! ### inversion lemmas for `Matches` -/

theorem matches_never (s : List CChar) : ¬ Matches .never s := by
  intro h; cases h

theorem matches_eps (s : List CChar) : Matches .eps s ↔ s = [] := by
  constructor
  · intro h; cases h; rfl
  · rintro rfl; exact .eps

theorem matches_chr (k : Nat) (s : List CChar) : Matches (.chr k) s ↔ ∃ c, s = [c] ∧ c.1.toNat = k := by
  constructor
  · intro h; cases h; exact ⟨_, rfl, by assumption⟩
  · rintro ⟨c, rfl, h⟩; exact .chr k c h

theorem matches_dot (s : List CChar) : Matches .dot s ↔ ∃ c, s = [c] ∧ c.1 ≠ '\n' ∧ c.1 ≠ '\r' := by
  constructor
  · intro h; cases h; exact ⟨_, rfl, by assumption, by assumption⟩
  · rintro ⟨c, rfl, h1, h2⟩; exact .dot c h1 h2

theorem matches_cls (neg : Bool) (items : List CCItem) (s : List CChar) :
    Matches (.cls neg items) s ↔ ∃ c, s = [c] ∧ (items.any (itemMatches c) != neg) = true := by
  constructor
  · intro h; cases h; exact ⟨_, rfl, by assumption⟩
  · rintro ⟨c, rfl, h⟩; exact .cls neg items c h

theorem matches_cat (neg : Bool) (p : Str) (s : List CChar) :
    Matches (.cat neg p) s ↔ ∃ c, s = [c] ∧ (propMatches p c.2 != neg) = true := by
  constructor
  · intro h; cases h; exact ⟨_, rfl, by assumption⟩
  · rintro ⟨c, rfl, h⟩; exact .cat neg p c h

theorem matches_seq (a b : Re) (s : List CChar) :
    Matches (.seq a b) s ↔ ∃ s1 s2, s = s1 ++ s2 ∧ Matches a s1 ∧ Matches b s2 := by
  constructor
  · intro h; cases h; exact ⟨_, _, rfl, by assumption, by assumption⟩
  · rintro ⟨s1, s2, rfl, h1, h2⟩; exact .seq a b s1 s2 h1 h2

theorem matches_alt (a b : Re) (s : List CChar) :
    Matches (.alt a b) s ↔ Matches a s ∨ Matches b s := by
  constructor
  · intro h; cases h
    · left; assumption
    · right; assumption
  · rintro (h | h)
    · exact .altL a b s h
    · exact .altR a b s h

/-- list-of-iterations characterisation of counted repetition -/
theorem matches_rep (r : Re) (lo : Nat) (hi : Option Nat) (t : List CChar) :
    Matches (.rep r lo hi) t ↔
      ∃ ss : List (List CChar), t = ss.flatten ∧ (∀ x ∈ ss, Matches r x) ∧ lo ≤ ss.length ∧
        (∀ h, hi = some h → ss.length ≤ h) := by
  constructor
  · intro h
    generalize e : Re.rep r lo hi = x at h
    induction h generalizing lo hi with
    | repNil r' hi' =>
      cases e
      exact ⟨[], rfl, by simp, by simp, by simp⟩
    | repCons r' lo' hi' s t' hpos hs ht ihs iht =>
      cases e
      obtain ⟨ss, rfl, hall, hlo, hhi⟩ := iht _ _ rfl
      refine ⟨s :: ss, rfl, ?_, ?_, ?_⟩
      · intro x hx
        rcases List.mem_cons.1 hx with rfl | hx
        · exact hs
        · exact hall x hx
      · simp; omega
      · intro h hh
        subst hh
        have := hpos _ rfl
        have := hhi (h - 1) rfl
        simp; omega
    | _ => cases e
  · rintro ⟨ss, rfl, hall, hlo, hhi⟩
    induction ss generalizing lo hi with
    | nil =>
      simp at hlo; subst hlo
      exact .repNil r hi
    | cons s ss ih =>
      rw [List.flatten_cons]
      refine .repCons r lo hi s ss.flatten ?_ (hall s (List.mem_cons_self ..)) ?_
      · intro h hh
        have := hhi h hh
        simp at this; omega
      · apply ih
        · intro x hx; exact hall x (List.mem_cons_of_mem _ hx)
        · simp at hlo; omega
        · intro h hh
          cases hi with
          | none => simp at hh
          | some h' =>
            simp at hh; subst hh
            have := hhi h' rfl
            simp at this; omega

/-! ### nullable -/

theorem reOk_seq {a b : Re} : reOk (.seq a b) = true ↔ reOk a = true ∧ reOk b = true := by
  simp [reOk]

theorem reOk_alt {a b : Re} : reOk (.alt a b) = true ↔ reOk a = true ∧ reOk b = true := by
  simp [reOk]

theorem reOk_rep {r : Re} {lo : Nat} {hi : Option Nat} :
    reOk (.rep r lo hi) = true ↔ (∀ h, hi = some h → lo ≤ h) ∧ reOk r = true := by
  cases hi <;> simp [reOk]

theorem nullable_iff (r : Re) (hok : reOk r = true) : nullable r = true ↔ Matches r [] := by
  induction r with
  | never => simp [nullable, matches_never]
  | eps => simp [nullable, matches_eps]
  | chr k => simp [nullable, matches_chr]
  | dot => simp [nullable, matches_dot]
  | cls neg items => simp [nullable, matches_cls]
  | cat neg p => simp [nullable, matches_cat]
  | seq a b iha ihb =>
    obtain ⟨ha, hb⟩ := reOk_seq.1 hok
    rw [matches_seq]
    simp only [nullable, Bool.and_eq_true, iha ha, ihb hb]
    constructor
    · rintro ⟨h1, h2⟩; exact ⟨[], [], rfl, h1, h2⟩
    · rintro ⟨s1, s2, h, h1, h2⟩
      have : s1 = [] ∧ s2 = [] := by simpa using h.symm
      obtain ⟨rfl, rfl⟩ := this
      exact ⟨h1, h2⟩
  | alt a b iha ihb =>
    obtain ⟨ha, hb⟩ := reOk_alt.1 hok
    rw [matches_alt]
    simp only [nullable, Bool.or_eq_true, iha ha, ihb hb]
  | rep r lo hi ih =>
    obtain ⟨hlh, hr⟩ := reOk_rep.1 hok
    rw [matches_rep]
    simp only [nullable, Bool.or_eq_true, decide_eq_true_eq, ih hr]
    constructor
    · rintro (rfl | h)
      · exact ⟨[], rfl, by simp, by simp, by simp⟩
      · refine ⟨List.replicate lo [], by simp, ?_, by simp, ?_⟩
        · intro x hx
          rw [List.eq_of_mem_replicate hx]; exact h
        · intro h' hh; simpa using hlh h' hh
    · rintro ⟨ss, hfl, hall, hlo, _⟩
      cases ss with
      | nil => left; simpa using hlo
      | cons x ss =>
        right
        have hx := hall x (List.mem_cons_self ..)
        have : x = [] := by
          have := hfl.symm
          simp at this
          exact this.1
        rw [this] at hx
        exact hx

/-! ### smart constructors -/

theorem matches_mkSeq (a b : Re) (s : List CChar) : Matches (mkSeq a b) s ↔ Matches (.seq a b) s := by
  rw [matches_seq]
  unfold mkSeq
  split
  · simp [matches_never]
  · simp [matches_never]
  · simp only [matches_eps]
    constructor
    · intro h; exact ⟨[], s, rfl, rfl, h⟩
    · rintro ⟨s1, s2, rfl, rfl, h⟩; exact h
  · simp only [matches_eps]
    constructor
    · intro h; exact ⟨s, [], by simp, h, rfl⟩
    · rintro ⟨s1, s2, rfl, h, rfl⟩; simpa using h
  · rw [matches_seq]

theorem matches_mkAlt (a b : Re) (s : List CChar) : Matches (mkAlt a b) s ↔ Matches (.alt a b) s := by
  rw [matches_alt]
  unfold mkAlt
  split
  · simp [matches_never]
  · simp [matches_never]
  · rw [matches_alt]

theorem reOk_mkSeq (a b : Re) (ha : reOk a = true) (hb : reOk b = true) : reOk (mkSeq a b) = true := by
  unfold mkSeq
  split <;> simp_all [reOk]

theorem reOk_mkAlt (a b : Re) (ha : reOk a = true) (hb : reOk b = true) : reOk (mkAlt a b) = true := by
  unfold mkAlt
  split <;> simp_all [reOk]

theorem reOk_deriv (c : CChar) (r : Re) (hok : reOk r = true) : reOk (deriv c r) = true := by
  induction r with
  | never => rfl
  | eps => rfl
  | chr k => simp only [deriv]; split <;> rfl
  | dot => simp only [deriv]; split <;> rfl
  | cls neg items => simp only [deriv]; split <;> rfl
  | cat neg p => simp only [deriv]; split <;> rfl
  | seq a b iha ihb =>
    obtain ⟨ha, hb⟩ := reOk_seq.1 hok
    simp only [deriv]
    split
    · exact reOk_mkAlt _ _ (reOk_mkSeq _ _ (iha ha) hb) (ihb hb)
    · exact reOk_mkSeq _ _ (iha ha) hb
  | alt a b iha ihb =>
    obtain ⟨ha, hb⟩ := reOk_alt.1 hok
    simp only [deriv]
    exact reOk_mkAlt _ _ (iha ha) (ihb hb)
  | rep r lo hi ih =>
    obtain ⟨hlh, hr⟩ := reOk_rep.1 hok
    simp only [deriv]
    split
    · rfl
    · rename_i h
      apply reOk_mkSeq _ _ (ih hr)
      rw [reOk_rep]
      refine ⟨?_, hr⟩
      intro h' hh
      cases hh
      have := hlh _ rfl
      omega
    · apply reOk_mkSeq _ _ (ih hr)
      rw [reOk_rep]
      exact ⟨by simp, hr⟩

/-! ### derivative -/

theorem flatten_head (r : Re) (c : CChar) (s : List CChar) :
    ∀ ss : List (List CChar), ss.flatten = c :: s → (∀ x ∈ ss, Matches r x) →
      ∃ (s1 : List CChar) (ss2 : List (List CChar)), Matches r (c :: s1) ∧ (∀ x ∈ ss2, Matches r x) ∧
        s = s1 ++ ss2.flatten ∧ ss2.length + 1 = ss.length := by
  intro ss
  induction ss with
  | nil => intro h; simp at h
  | cons x ss ih =>
    intro hfl hall
    cases x with
    | nil =>
      have hnil : Matches r [] := hall [] (List.mem_cons_self ..)
      obtain ⟨s1, ss2, h1, h2, h3, h4⟩ := ih (by simpa using hfl)
        (fun y hy => hall y (List.mem_cons_of_mem _ hy))
      refine ⟨s1, ss2 ++ [[]], h1, ?_, ?_, ?_⟩
      · intro y hy
        rcases List.mem_append.1 hy with hy | hy
        · exact h2 y hy
        · simp at hy; subst hy; exact hnil
      · simpa using h3
      · simp; omega
    | cons d x =>
      simp at hfl
      obtain ⟨rfl, rfl⟩ := hfl
      refine ⟨x, ss, hall _ (List.mem_cons_self ..), fun y hy => hall y (List.mem_cons_of_mem _ hy), rfl, by simp⟩

theorem matches_rep_cons (r : Re) (lo : Nat) (hi : Option Nat) (c : CChar) (s : List CChar) :
    Matches (.rep r lo hi) (c :: s) ↔
      (∀ h, hi = some h → 0 < h) ∧
      ∃ s1 s2, s = s1 ++ s2 ∧ Matches r (c :: s1) ∧ Matches (.rep r (lo - 1) (hi.map (· - 1))) s2 := by
  constructor
  · intro h
    rw [matches_rep] at h
    obtain ⟨ss, hfl, hall, hlo, hhi⟩ := h
    obtain ⟨s1, ss2, h1, h2, h3, h4⟩ := flatten_head r c s ss hfl.symm hall
    refine ⟨?_, s1, ss2.flatten, h3, h1, ?_⟩
    · intro h hh
      have := hhi h hh
      omega
    · rw [matches_rep]
      refine ⟨ss2, rfl, h2, by omega, ?_⟩
      intro h hh
      cases hi with
      | none => simp at hh
      | some h' =>
        simp at hh; subst hh
        have := hhi h' rfl
        omega
  · rintro ⟨hpos, s1, s2, rfl, h1, h2⟩
    exact .repCons r lo hi (c :: s1) s2 hpos h1 h2

theorem matches_seq_cons (a b : Re) (c : CChar) (s : List CChar) :
    Matches (.seq a b) (c :: s) ↔
      (∃ s1 s2, s = s1 ++ s2 ∧ Matches a (c :: s1) ∧ Matches b s2) ∨ (Matches a [] ∧ Matches b (c :: s)) := by
  rw [matches_seq]
  constructor
  · rintro ⟨s1, s2, h, h1, h2⟩
    cases s1 with
    | nil =>
      simp at h; subst h
      exact Or.inr ⟨h1, h2⟩
    | cons d s1 =>
      simp at h
      obtain ⟨rfl, rfl⟩ := h
      exact Or.inl ⟨s1, s2, rfl, h1, h2⟩
  · rintro (⟨s1, s2, rfl, h1, h2⟩ | ⟨h1, h2⟩)
    · exact ⟨c :: s1, s2, rfl, h1, h2⟩
    · exact ⟨[], c :: s, rfl, h1, h2⟩

theorem single_iff (c : CChar) (s : List CChar) (P : CChar → Prop) :
    (∃ c', c :: s = [c'] ∧ P c') ↔ s = [] ∧ P c := by
  constructor
  · rintro ⟨c', h, hp⟩
    simp at h
    obtain ⟨rfl, rfl⟩ := h
    exact ⟨rfl, hp⟩
  · rintro ⟨rfl, hp⟩; exact ⟨c, rfl, hp⟩

theorem matches_deriv (c : CChar) (r : Re) (hok : reOk r = true) :
    ∀ s, Matches (deriv c r) s ↔ Matches r (c :: s) := by
  induction r with
  | never => intro s; simp [deriv, matches_never]
  | eps => intro s; simp [deriv, matches_never, matches_eps]
  | chr k =>
    intro s
    rw [matches_chr, single_iff]
    simp only [deriv]
    split <;> simp_all [matches_never, matches_eps]
  | dot =>
    intro s
    rw [matches_dot, single_iff]
    simp only [deriv]
    split
    · rename_i h
      simp only [Bool.or_eq_true, decide_eq_true_eq] at h
      simp only [matches_never, false_iff]
      rintro ⟨_, h1, h2⟩
      rcases h with h | h
      · exact h1 h
      · exact h2 h
    · simp_all [matches_eps]
  | cls neg items =>
    intro s
    rw [matches_cls, single_iff]
    simp only [deriv]
    split <;> simp_all [matches_never, matches_eps]
  | cat neg p =>
    intro s
    rw [matches_cat, single_iff]
    simp only [deriv]
    split <;> simp_all [matches_never, matches_eps]
  | seq a b iha ihb =>
    intro s
    obtain ⟨ha, hb⟩ := reOk_seq.1 hok
    rw [matches_seq_cons]
    simp only [deriv]
    split
    · rename_i hn
      rw [matches_mkAlt, matches_alt, matches_mkSeq, matches_seq, ihb hb]
      simp only [iha ha, (nullable_iff a ha).1 hn, true_and]
    · rename_i hn
      rw [matches_mkSeq, matches_seq]
      simp only [iha ha]
      have : ¬ Matches a [] := fun h => hn ((nullable_iff a ha).2 h)
      simp [this]
  | alt a b iha ihb =>
    intro s
    obtain ⟨ha, hb⟩ := reOk_alt.1 hok
    simp only [deriv]
    rw [matches_mkAlt, matches_alt, matches_alt, iha ha, ihb hb]
  | rep r lo hi ih =>
    intro s
    obtain ⟨hlh, hr⟩ := reOk_rep.1 hok
    rw [matches_rep_cons]
    simp only [deriv]
    split
    · simp [matches_never]
    · rw [matches_mkSeq, matches_seq]
      simp [ih hr]
    · rw [matches_mkSeq, matches_seq]
      simp [ih hr]

/-! ### the three matchers -/

theorem fullMatch_iff (s : List CChar) : ∀ r, reOk r = true → (fullMatch r s = true ↔ Matches r s) := by
  induction s with
  | nil => intro r hok; simpa [fullMatch] using nullable_iff r hok
  | cons c s ih =>
    intro r hok
    have := ih (deriv c r) (reOk_deriv c r hok)
    rw [matches_deriv c r hok] at this
    simpa [fullMatch] using this

theorem prefixMatch_iff (s : List CChar) : ∀ r, reOk r = true →
    (prefixMatch r s = true ↔ ∃ pre post, s = pre ++ post ∧ Matches r pre) := by
  induction s with
  | nil =>
    intro r hok
    simp only [prefixMatch, nullable_iff r hok]
    constructor
    · intro h; exact ⟨[], [], rfl, h⟩
    · rintro ⟨pre, post, h, hm⟩
      have : pre = [] := by
        have := h.symm; simp at this; exact this.1
      subst this; exact hm
  | cons c s ih =>
    intro r hok
    simp only [prefixMatch, Bool.or_eq_true, nullable_iff r hok, ih (deriv c r) (reOk_deriv c r hok)]
    constructor
    · rintro (h | ⟨pre, post, rfl, hm⟩)
      · exact ⟨[], c :: s, rfl, h⟩
      · exact ⟨c :: pre, post, rfl, (matches_deriv c r hok pre).1 hm⟩
    · rintro ⟨pre, post, h, hm⟩
      cases pre with
      | nil => exact Or.inl hm
      | cons d pre =>
        simp at h
        obtain ⟨rfl, rfl⟩ := h
        exact Or.inr ⟨pre, post, rfl, (matches_deriv c r hok pre).2 hm⟩

theorem searchMatch_iff (r : Re) (hok : reOk r = true) (s : List CChar) :
    searchMatch r s = true ↔ ∃ pre mid post, s = pre ++ mid ++ post ∧ Matches r mid := by
  induction s with
  | nil =>
    simp only [searchMatch, nullable_iff r hok]
    constructor
    · intro h; exact ⟨[], [], [], rfl, h⟩
    · rintro ⟨pre, mid, post, h, hm⟩
      have : mid = [] := by
        have := h.symm; simp at this; exact this.2.1
      subst this; exact hm
  | cons c s ih =>
    simp only [searchMatch, Bool.or_eq_true, prefixMatch_iff (c :: s) r hok, ih]
    constructor
    · rintro (⟨mid, post, h, hm⟩ | ⟨pre, mid, post, rfl, hm⟩)
      · exact ⟨[], mid, post, by simpa using h, hm⟩
      · exact ⟨c :: pre, mid, post, by simp, hm⟩
    · rintro ⟨pre, mid, post, h, hm⟩
      cases pre with
      | nil => exact Or.inl ⟨mid, post, by simpa using h, hm⟩
      | cons d pre =>
        simp at h
        obtain ⟨rfl, rfl⟩ := h
        exact Or.inr ⟨pre, mid, post, by simp, hm⟩

end Rx
open Rx

theorem deriv_correct (r : Re) (hok : reOk r = true) (s : List CChar) :
    (fullMatch r s = true ↔ Matches r s) ∧
    (searchMatch r s = true ↔ ∃ pre mid post, s = pre ++ mid ++ post ∧ Matches r mid) := by
  exact ⟨fullMatch_iff s r hok, searchMatch_iff r hok s⟩

end JPV.Proofs
