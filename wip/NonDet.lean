import JPV.Impl.NonDet
import JPV.Spec.NonDet
import JPV.Spec.Typing
namespace JPV.Proofs
open JPV JPV.Impl

theorem nd_shuffle_perm {α} (xs : List α) (s : ND.Script) : ((ND.shuffle xs s).1).Perm xs := by sorry

theorem nd_merge_interleaves {α} (q g : List α) (s : ND.Script) :
    ((ND.mergeQ q g s).1).Perm (q ++ g) ∧ List.Sublist q (ND.mergeQ q g s).1 ∧ List.Sublist g (ND.mergeQ q g s).1 := by
  sorry

theorem nd_children (n : Node) (s : ND.Script) :
    ((ND.ndChildren n s).1).Perm (Impl.children n) ∧
    (∀ xs, n.val = .arr xs → (ND.ndChildren n s).1 = Impl.children n) := by sorry

theorem nd_find_perm : ∀ (env : Env) (reg : Spec.Registry) (q : Query) (v : Json) (s : ND.Script),
    Spec.filterFree q = true → v.WF → (v.depth : Int) ≤ env.maxDepth → 1 ≤ env.maxDepth →
    ∃ r, ND.find env q v s = .ok r ∧ r.Perm (Spec.select reg q v) := by sorry

end JPV.Proofs
