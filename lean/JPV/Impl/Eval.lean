/-
`Impl.Eval` — hand-written executable model of the *deterministic* evaluator:
query.py `finditer`, segments.py `JSONPathChildSegment.resolve`,
`JSONPathRecursiveDescentSegment.resolve/_visit`, selectors.py `resolve` of the
five selectors, filter_expressions.py `evaluate` of every expression class,
`_is_truthy`, `_compare`, `_eq`, `_json_eq`, `_lt`, `_unpack_node_lists`, and the
bodies of `length`, `count`, `value`.

The model keeps the code's dynamic typing: a filter expression evaluates to an
`Obj` (nodelist / NOTHING / raw Python value) and every operation has the cases
Python has.  Where Python would raise something that is not a JSONPathError the
model returns `ErrKind.py <class>`; C13 is the theorem that this is unreachable.

Generators are `Stream`s: the nodes yielded, then possibly the exception that
ends the iteration — exactly what a consumer can observe.
-/
import JPV.Ast
import JPV.Py
namespace JPV.Impl

inductive ErrKind where
  | syntax | type | index | name | recursion | lexer
  /-- an exception that is not derived from JSONPathError -/
  | py (cls : String)
  /-- the model ran out of fuel (never an answer; see `*_fuel_sufficient`) -/
  | fuel
deriving DecidableEq, Repr, Inhabited

def ErrKind.isJSONPathError : ErrKind → Bool
  | .py _ => false
  | .fuel => false
  | _ => true

/-- What a filter expression evaluates to (a dynamically typed Python object). -/
inductive Obj where
  | nodes (ns : List Node)
  | nothing
  | val (v : Json)
deriving Repr, Inhabited

structure Func where
  argTypes : List Ty
  ret : Ty
  body : List Obj → Except ErrKind Obj

structure Env where
  maxDepth : Int := 100
  minIdx : Int := -(2^53) + 1
  maxIdx : Int := 2^53 - 1
  nondet : Bool := false
  funcs : List (Str × Func) := []

def Env.func (env : Env) (name : Str) : Option Func :=
  (env.funcs.find? (fun p => p.1 = name)).map Prod.snd

abbrev Stream := List Node × Option ErrKind

namespace Stream
def nil : Stream := ([], none)
def cons (n : Node) (s : Stream) : Stream := (n :: s.1, s.2)
/-- `yield from a; yield from b` -/
def append (a b : Stream) : Stream :=
  match a.2 with
  | some e => (a.1, some e)
  | none => (a.1 ++ b.1, b.2)
/-- `for n in ns: yield from f(n)`; the source's own terminal error comes last. -/
def bindList (ns : List Node) (f : Node → Stream) : Stream :=
  match ns with
  | [] => nil
  | n :: rest => append (f n) (bindList rest f)
def bind (s : Stream) (f : Node → Stream) : Stream :=
  append (bindList s.1 f) ([], s.2)
/-- `list(stream)` -/
def toList (s : Stream) : Except ErrKind (List Node) :=
  match s.2 with
  | some e => .error e
  | none => .ok s.1
end Stream

/-! ### `_is_truthy`, `_eq`, `_json_eq`, `_lt`, `_compare` -/

/-- `_is_truthy` (with Python's `bool()` on raw values). -/
def truthy : Obj → Bool
  | .nodes ns => !ns.isEmpty
  | .nothing => false
  | .val .null => true
  | .val (.bool b) => b
  | .val (.num x) => !x.isZero
  | .val (.str s) => !s.isEmpty
  | .val (.arr xs) => !xs.isEmpty
  | .val (.obj kvs) => !kvs.isEmpty

mutual
/-- `_json_eq` on JSON-shaped Python objects. -/
def jsonEq : Json → Json → Bool
  | .bool a, .bool b => a == b
  | .bool _, _ => false
  | _, .bool _ => false
  | .arr xs, .arr ys => arrEq xs ys
  | .obj l, .obj r =>
      (Json.keys l).all (fun k => (Json.keys r).contains k)
      && (Json.keys r).all (fun k => (Json.keys l).contains k)
      && objEq l r
  | .num a, .num b => a.beq b
  | .str a, .str b => a == b
  | .null, .null => true
  | _, _ => false
/-- `len(left) == len(right) and all(_json_eq(a, b) for a, b in zip(left, right))` -/
def arrEq : List Json → List Json → Bool
  | [], [] => true
  | x :: xs, y :: ys => jsonEq x y && arrEq xs ys
  | _, _ => false
/-- `all(_json_eq(val, right[key]) for key, val in left.items())` -/
def objEq : List (Str × Json) → List (Str × Json) → Bool
  | [], _ => true
  | (k, v) :: rest, r =>
      (match Json.lookup k r with
       | some v' => jsonEq v v'
       | none => false) && objEq rest r
end

/-- `_eq`. Two node lists are compared with `list.__eq__`, whose elements
(`JSONPathNode`, no `__eq__`) are equal only when identical objects; nodes of two
evaluations never are, so two node lists are equal iff both are empty. -/
def eqObj : Obj → Obj → Bool
  | .nodes a, .nodes b => a.isEmpty && b.isEmpty
  | .nodes a, .nothing => a.isEmpty
  | .nothing, .nodes b => b.isEmpty
  | .nodes _, .val _ => false
  | .val _, .nodes _ => false
  | .nothing, .nothing => true
  | .nothing, .val _ => false
  | .val _, .nothing => false
  | .val a, .val b => jsonEq a b

/-- `_lt`. -/
def ltObj : Obj → Obj → Bool
  | .val (.str a), .val (.str b) => strLt a b
  | .val (.num a), .val (.num b) => a.blt b
  | _, _ => false

/-- `_compare` for the six comparison operators. -/
def compare (l : Obj) (op : COp) (r : Obj) : Bool :=
  match op with
  | .eq => eqObj l r
  | .ne => !eqObj l r
  | .lt => ltObj l r
  | .gt => ltObj r l
  | .ge => ltObj r l || eqObj l r
  | .le => ltObj l r || eqObj l r

/-- `ComparisonExpression.evaluate`: a one-node list stands for its value. -/
def unwrap1 : Obj → Obj
  | .nodes [n] => .val n.val
  | o => o

/-! ### Function calls -/

/-- `_unpack_node_lists`, one argument. -/
def unpack1 (t : Ty) (o : Obj) : Obj :=
  match t, o with
  | .logical, .nodes ns => .val (.bool (!ns.isEmpty))
  | .value, .nodes [] => .nothing
  | .value, .nodes [n] => .val n.val
  | _, o => o

/-- `_unpack_node_lists`: `func.arg_types[idx]` raises IndexError when there are
more arguments than declared types (cannot happen after the compile-time arity
check unless the registry changed in between). -/
def unpack : List Ty → List Obj → Except ErrKind (List Obj)
  | _, [] => .ok []
  | [], _ :: _ => .error (.py "IndexError")
  | t :: ts, o :: os => do
      let rest ← unpack ts os
      pure (unpack1 t o :: rest)

def intObj (n : Nat) : Obj := .val (.num (Num.ofInt n))

/-- `Length.__call__`: `len(obj)`, `TypeError` ↦ NOTHING. -/
def lengthBody : List Obj → Except ErrKind Obj
  | [.val (.str s)] => .ok (intObj s.length)
  | [.val (.arr xs)] => .ok (intObj xs.length)
  | [.val (.obj kvs)] => .ok (intObj kvs.length)
  | [.nodes ns] => .ok (intObj ns.length)
  | [_] => .ok .nothing
  | _ => .error (.py "TypeError")

/-- `Count.__call__`: `len(node_list)`. -/
def countBody : List Obj → Except ErrKind Obj
  | [.nodes ns] => .ok (intObj ns.length)
  | [.val (.str s)] => .ok (intObj s.length)
  | [.val (.arr xs)] => .ok (intObj xs.length)
  | [.val (.obj kvs)] => .ok (intObj kvs.length)
  | _ => .error (.py "TypeError")

/-- `Value.__call__`. -/
def valueBody : List Obj → Except ErrKind Obj
  | [.nodes [n]] => .ok (.val n.val)
  | [.nodes _] => .ok .nothing
  | [.val (.str [c])] => .error (.py "AttributeError")
  | [.val (.arr [_])] => .error (.py "AttributeError")
  | [.val (.str _)] => .ok .nothing
  | [.val (.arr _)] => .ok .nothing
  | [.val (.obj kvs)] => if kvs.length = 1 then .error (.py "KeyError") else .ok .nothing
  | _ => .error (.py "TypeError")

def lengthFunc : Func := ⟨[.value], .value, lengthBody⟩
def countFunc : Func := ⟨[.nodes], .value, countBody⟩
def valueFunc : Func := ⟨[.nodes], .value, valueBody⟩

/-! ### Selectors on one node -/

def child (n : Node) (k : Key) (v : Json) : Node := ⟨n.loc ++ [k], v⟩

/-- `NameSelector.resolve` -/
def selName (s : Str) (n : Node) : List Node :=
  match n.val with
  | .obj kvs => match Json.lookup s kvs with
    | some v => [child n (.name s) v]
    | none => []
  | _ => []

/-- `IndexSelector._normalized_index` -/
def normIndex (i : Int) (len : Nat) : Int :=
  if i < 0 ∧ (len : Int) ≥ i.natAbs then (len : Int) + i else i

/-- `IndexSelector.resolve` -/
def selIndex (i : Int) (n : Node) : List Node :=
  match n.val with
  | .arr xs => match Py.index xs i with
    | some v => [child n (.idx (normIndex i xs.length)) v]
    | none => []
  | _ => []

/-- `SliceSelector.resolve` -/
def selSlice (a b c : Option Int) (n : Node) : List Node :=
  match n.val with
  | .arr xs =>
    if c = some 0 then [] else
    match Py.sliceZip xs a b c with
    | some ps => ps.map (fun p => child n (.idx p.1) p.2)
    | none => []
  | _ => []

/-- `enumerate(xs)` as child nodes -/
def arrChildren (n : Node) (xs : List Json) : List Node :=
  (List.range xs.length).zip xs |>.map (fun p => child n (.idx (p.1 : Int)) p.2)

def objChildren (n : Node) (kvs : List (Str × Json)) : List Node :=
  kvs.map (fun p => child n (.name p.1) p.2)

/-- The children a wildcard or filter selector iterates over. -/
def children (n : Node) : List Node :=
  match n.val with
  | .obj kvs => objChildren n kvs
  | .arr xs => arrChildren n xs
  | _ => []

/-- `FilterSelector.resolve`'s loop: evaluate per child, keep the true ones,
stop at the first exception. -/
def filterChildren (cs : List Node) (test : Json → Except ErrKind Bool) : Stream :=
  match cs with
  | [] => Stream.nil
  | c :: rest =>
    match test c.val with
    | .error e => ([], some e)
    | .ok true => Stream.cons c (filterChildren rest test)
    | .ok false => filterChildren rest test

/-! ### `_visit` -/

mutual
/-- `JSONPathRecursiveDescentSegment._visit(node, depth)` -/
def visit (max : Int) (d : Nat) (loc : Loc) (v : Json) : Stream :=
  if (d : Int) > max then ([], some .recursion) else
  match v with
  | .arr xs => Stream.cons ⟨loc, v⟩ (visitArr max (d + 1) loc 0 xs)
  | .obj kvs => Stream.cons ⟨loc, v⟩ (visitObj max (d + 1) loc kvs)
  | _ => ([⟨loc, v⟩], none)
def visitArr (max : Int) (d : Nat) (loc : Loc) (i : Nat) : List Json → Stream
  | [] => Stream.nil
  | x :: xs =>
    if x.isContainer then
      Stream.append (visit max d (loc ++ [.idx (i : Int)]) x) (visitArr max d loc (i + 1) xs)
    else visitArr max d loc (i + 1) xs
def visitObj (max : Int) (d : Nat) (loc : Loc) : List (Str × Json) → Stream
  | [] => Stream.nil
  | (k, x) :: rest =>
    if x.isContainer then
      Stream.append (visit max d (loc ++ [.name k]) x) (visitObj max d loc rest)
    else visitObj max d loc rest
end

/-! ### The evaluator -/

mutual
/-- `Expression.evaluate(context)` with `context = (env, current, root)` -/
def evalExpr (env : Env) (root cur : Json) : Expr → Except ErrKind Obj
  | .lit v => .ok (.val v)
  | .not e => do
      let o ← evalExpr env root cur e
      pure (.val (.bool (!truthy o)))
  | .logical op l r => do
      let a ← evalExpr env root cur l
      let b ← evalExpr env root cur r
      pure (.val (.bool (match op with
        | .and => truthy a && truthy b
        | .or => truthy a || truthy b)))
  | .cmp op l r => do
      let a ← evalExpr env root cur l
      let b ← evalExpr env root cur r
      pure (.val (.bool (compare (unwrap1 a) op (unwrap1 b))))
  | .rel q => do
      let ns ← (evalSegs env root q ([⟨[], cur⟩], none)).toList
      pure (.nodes ns)
  | .root q => do
      let ns ← (evalSegs env root q ([⟨[], root⟩], none)).toList
      pure (.nodes ns)
  | .call name args =>
      match env.func name with
      | none => .ok .nothing
      | some f => do
          let as ← evalArgs env root cur args
          let as' ← unpack f.argTypes as
          f.body as'
def evalArgs (env : Env) (root cur : Json) : List Expr → Except ErrKind (List Obj)
  | [] => .ok []
  | e :: es => do
      let a ← evalExpr env root cur e
      let as ← evalArgs env root cur es
      pure (a :: as)
/-- `selector.resolve(node)` -/
def evalSel (env : Env) (root : Json) : Selector → Node → Stream
  | .name s, n => (selName s n, none)
  | .index i, n => (selIndex i n, none)
  | .slice a b c, n => (selSlice a b c n, none)
  | .wild, n => (children n, none)
  | .filter e, n =>
      filterChildren (children n) (fun c => (evalExpr env root c e).map truthy)
/-- `for selector in self.selectors: yield from selector.resolve(node)` -/
def evalSels (env : Env) (root : Json) : List Selector → Node → Stream
  | [], _ => Stream.nil
  | s :: ss, n => Stream.append (evalSel env root s n) (evalSels env root ss n)
/-- `segment.resolve(nodes)` -/
def evalSeg (env : Env) (root : Json) : Segment → Stream → Stream
  | .child sels, s => s.bind (evalSels env root sels)
  | .desc sels, s =>
      s.bind (fun n => (visit env.maxDepth 1 n.loc n.val).bind (evalSels env root sels))
/-- `for segment in self.segments: nodes = segment.resolve(nodes)` -/
def evalSegs (env : Env) (root : Json) : List Segment → Stream → Stream
  | [], s => s
  | seg :: segs, s => evalSegs env root segs (evalSeg env root seg s)
end

/-- `JSONPathQuery.finditer(value)` as the stream a consumer observes. -/
def finditer (env : Env) (q : Query) (v : Json) : Stream :=
  evalSegs env v q ([⟨[], v⟩], none)

/-- `JSONPathQuery.find(value)` -/
def find (env : Env) (q : Query) (v : Json) : Except ErrKind (List Node) :=
  (finditer env q v).toList

/-- `JSONPathQuery.find_one(value)` : first element, `None`, or the exception
raised before any element was produced. -/
def findOne (env : Env) (q : Query) (v : Json) : Except ErrKind (Option Node) :=
  match finditer env q v with
  | (n :: _, _) => .ok (some n)
  | ([], none) => .ok none
  | ([], some e) => .error e

end JPV.Impl
