/-
`Proofs.LexShape` — the shape of the tokens the lexer emits: an INDEX token is `-?[0-9]+`,
a string token is a text `_lex_string`'s loop accepted.
-/
import JPV.Proofs.LexFuel
namespace JPV.Impl
open JPV

/-! ### texts accepted by the string loop -/

/-- a concatenation of items: a character that is neither the backslash nor the quote, or a
backslash followed by an escape character or the quote -/
inductive Scanned (quote : Char) : List Char → Prop
  | nil : Scanned quote []
  | plain (c : Char) (t : List Char) : c ≠ '\\' → c ≠ quote → Scanned quote t → Scanned quote (c :: t)
  | esc (p : Char) (t : List Char) : (isEscapeChar p || p = quote) = true → Scanned quote t →
      Scanned quote ('\\' :: p :: t)

theorem Scanned.append {quote : Char} {a b : List Char} (ha : Scanned quote a) (hb : Scanned quote b) :
    Scanned quote (a ++ b) := by
  induction ha with
  | nil => simpa using hb
  | plain c t h1 h2 _ ih => exact .plain c _ h1 h2 ih
  | esc p t h1 _ ih => exact .esc p _ h1 ih

theorem Scanned.snoc_plain {quote : Char} {a : List Char} {c : Char} (ha : Scanned quote a)
    (h1 : c ≠ '\\') (h2 : c ≠ quote) : Scanned quote (a ++ [c]) :=
  ha.append (.plain c [] h1 h2 .nil)

theorem Scanned.snoc_esc {quote : Char} {a : List Char} {p : Char} (ha : Scanned quote a)
    (h : (isEscapeChar p || p = quote) = true) : Scanned quote ((a ++ ['\\']) ++ [p]) := by
  have := ha.append (.esc p [] h .nil)
  simpa using this

theorem scanString_of_scanned {quote : Char} (hq : quote ≠ '\\') {t : List Char} (h : Scanned quote t)
    (rest : List Char) : scanString quote (t ++ quote :: rest) = some (t, rest) := by
  induction h with
  | nil => show scanString quote (quote :: rest) = _; unfold scanString; simp [hq]
  | plain c t h1 h2 _ ih =>
    show scanString quote (c :: (t ++ quote :: rest)) = _
    unfold scanString; simp [h1, h2, ih]
  | esc p t h1 _ ih =>
    simp only [List.cons_append, scanString, if_true, h1, ih]
    rfl

/-! ### INDEX texts -/

theorem all_take_spanLen (p : Char → Bool) (s : List Char) : (s.take (spanLen p s)).all p = true := by
  induction s with
  | nil => simp [spanLen]
  | cons c cs ih =>
    simp only [spanLen]
    split
    · rename_i h
      rw [Nat.add_comm]; simp [List.take_succ_cons, h, ih]
    · simp

theorem allDigits_take_spanLen (s : List Char) (h : spanLen isDigit s ≠ 0) :
    Py.allDigits (s.take (spanLen isDigit s)) = true := by
  have h1 := all_take_spanLen isDigit s
  have h2 := spanLen_le isDigit s
  unfold Py.allDigits
  have : (fun c => decide ('0' ≤ c) && decide (c ≤ '9')) = isDigit := rfl
  rw [this, h1]
  cases s with
  | nil => simp [spanLen] at h
  | cons c cs =>
    cases hn : spanLen isDigit (c :: cs) with
    | zero => exact absurd hn h
    | succ k => simp

theorem intOfText_reSignedDigits {s : List Char} {k : Nat} (h : reSignedDigits s = some k) :
    (Py.intOfText (s.take k)).isSome = true := by
  unfold reSignedDigits at h
  split at h
  rename_i sign r heq
  simp only at h
  split at h
  · cases h
  · rename_i hn
    cases h
    split at heq
    · cases heq
      rw [Nat.add_comm]
      simp only [List.take_succ_cons, Py.intOfText, allDigits_take_spanLen _ hn, if_true]
      rfl
    · rename_i hs
      cases heq
      simp only [Nat.zero_add]
      have hd := allDigits_take_spanLen _ hn
      unfold Py.intOfText
      split
      · rename_i r' heq'
        exfalso
        unfold Py.allDigits at hd
        rw [heq'] at hd
        simp at hd
      · simp [hd]

/-! ### slices of the query -/

namespace Lexer
variable {l l' : Lexer}

theorem slice_eq (l : Lexer) (a b : Nat) : l.slice a b = (l.q.toList.drop a).take (b - a) := by
  simp [slice]

theorem slice_congr (h : l'.q = l.q) (a b : Nat) : l'.slice a b = l.slice a b := by
  simp [slice, h]

theorem slice_self (l : Lexer) (a : Nat) : l.slice a a = [] := by
  simp [slice_eq]

theorem restFrom_eq (l : Lexer) : l.restFrom = l.q.toList.drop l.pos := by
  simp only [restFrom, Array.toList_extract, List.extract_eq_take_drop]
  apply List.take_of_length_le; simp

theorem slice_take (l : Lexer) (k : Nat) : l.slice l.pos (l.pos + k) = l.restFrom.take k := by
  simp [slice_eq, restFrom_eq]

theorem peek_some {c : Char} (h : l.peek = some c) : l.pos < l.q.size ∧ l.q.toList[l.pos]? = some c := by
  unfold peek at h
  split at h
  · rename_i hlt
    cases h
    exact ⟨hlt, by simp [hlt]⟩
  · cases h

theorem slice_snoc {c : Char} (h : l.peek = some c) {a : Nat} (ha : a ≤ l.pos) :
    l.slice a (l.pos + 1) = l.slice a l.pos ++ [c] := by
  obtain ⟨h1, h2⟩ := peek_some h
  rw [slice_eq, slice_eq]
  have : l.pos + 1 - a = (l.pos - a) + 1 := by omega
  rw [this, List.take_add_one]
  congr 1
  simp only [List.getElem?_drop]
  have : a + (l.pos - a) = l.pos := by omega
  rw [this, h2]; rfl

end Lexer


/-! ### what the parser relies on about a token -/

/-- (`Proofs.TokShape` is this definition) -/
def TokWF (t : Token) : Prop :=
  (t.kind = .index → (Py.intOfText t.value).isSome = true) ∧
  (t.kind = .sqString → ∃ inp rest, scanString '\'' inp = some (t.value, rest)) ∧
  (t.kind = .dqString → ∃ inp rest, scanString '"' inp = some (t.value, rest))

theorem TokWF.plain {k : TokKind} (hk : k ≠ .index ∧ k ≠ .sqString ∧ k ≠ .dqString) (v : Str) (i : Int) :
    TokWF ⟨k, v, i⟩ :=
  ⟨fun h => absurd h hk.1, fun h => absurd h hk.2.1, fun h => absurd h hk.2.2⟩

theorem TokWF.str {q : Char} (hq : q = '\'' ∨ q = '"') {v : Str} (hv : Scanned q v) (i : Int) :
    TokWF ⟨strKind q, v, i⟩ := by
  rcases hq with rfl | rfl
  · refine ⟨fun h => by simp [strKind] at h, fun _ => ⟨_, [], scanString_of_scanned (by decide) hv []⟩,
      fun h => by simp [strKind] at h⟩
  · refine ⟨fun h => by simp [strKind] at h, fun h => by simp [strKind] at h,
      fun _ => ⟨_, [], scanString_of_scanned (by decide) hv []⟩⟩

/-- every token emitted so far is well-shaped -/
def TL (ts : List Token) : Prop := ∀ t ∈ ts, TokWF t

/-- what the string states know: the quote is one of the two, and the text consumed by the
loop so far is a sequence of complete items -/
def StInv : LState → Lexer → Prop
  | .strStart q _, _ => q = '\'' ∨ q = '"'
  | .strLoop q _, l => (q = '\'' ∨ q = '"') ∧ Scanned q (l.slice l.start l.pos)
  | _, _ => True

def Step2 : StepResult → Prop
  | .ok (l', some s') => TL l'.toks ∧ StInv s' l'
  | .ok (l', none) => TL l'.toks
  | .error _ => True

section
variable {l l' : Lexer}

theorem TL.emit_wf {k : TokKind} (hw : TokWF ⟨k, l.slice l.start l.pos, l.start⟩) (ht : TL l.toks) :
    TL (l.emit k).toks := by
  intro t h
  simp only [Lexer.emit, List.mem_cons] at h
  rcases h with rfl | h
  · exact hw
  · exact ht t h

theorem TL.emit {k : TokKind} (hk : k ≠ .index ∧ k ≠ .sqString ∧ k ≠ .dqString) (ht : TL l.toks) :
    TL (l.emit k).toks := ht.emit_wf (.plain hk _ _)

theorem TL.error (ht : TL l.toks) : TL l.error.toks := by
  intro t h
  simp only [Lexer.error, List.mem_cons] at h
  rcases h with rfl | h
  · exact .plain (by decide) _ _
  · exact ht t h

theorem Lexer.ignore_toks : l.ignore.toks = l.toks := rfl
theorem Lexer.pushBracket_toks (c : Char) (i : Nat) : (l.pushBracket c i).toks = l.toks := rfl

theorem TL.of_backup (h : l.backup = .ok l') (ht : TL l.toks) : TL l'.toks := by
  obtain ⟨_, rfl⟩ := Lexer.backup_ok_iff h
  exact ht

theorem Lexer.acceptMatch_iff {re : List Char → Option Nat} (h : l.acceptMatch re = some l') :
    ∃ k, re l.restFrom = some k ∧ l' = { l with pos := l.pos + k } := by
  unfold Lexer.acceptMatch at h
  cases hr : re l.restFrom with
  | none => simp [hr] at h
  | some k => simp [hr] at h; subst h; exact ⟨k, rfl, rfl⟩

theorem TL.of_acceptMatch {re : List Char → Option Nat} (h : l.acceptMatch re = some l') (ht : TL l.toks) :
    TL l'.toks := by
  obtain ⟨k, _, rfl⟩ := Lexer.acceptMatch_iff h
  exact ht

theorem TL.of_accept {s : List Char} (h : l.accept s = some l') (ht : TL l.toks) : TL l'.toks := by
  unfold Lexer.accept at h
  split at h
  · cases h; exact ht
  · cases h

theorem Lexer.ws_frame {x : Bool × Lexer} (h : l.ignoreWhitespace = .ok x) :
    x.2.toks = l.toks ∧ x.2.start = x.2.pos := by
  unfold Lexer.ignoreWhitespace at h
  split at h
  · cases h
  · rename_i hp
    split at h
    · rename_i l1 hm
      cases h
      obtain ⟨k, _, rfl⟩ := Lexer.acceptMatch_iff hm
      exact ⟨rfl, rfl⟩
    · cases h; exact ⟨rfl, by simp at hp; exact hp.symm⟩

theorem TL.of_ws {x : Bool × Lexer} (h : l.ignoreWhitespace = .ok x) (ht : TL l.toks) : TL x.2.toks := by
  rw [(Lexer.ws_frame h).1]; exact ht

end

/-- discharge `TL _.toks` goals built from the helper methods (emissions of INDEX / string tokens are left) -/
macro "toks_ok" : tactic => `(tactic|
  repeat' (first
    | assumption
    | apply TL.error
    | refine TL.emit (by decide) ?_
    | refine TL.of_backup (by assumption) ?_
    | refine TL.of_ws (by assumption) ?_
    | refine TL.of_accept (by assumption) ?_
    | refine TL.of_acceptMatch (by assumption) ?_
    | simp only [Lexer.ignore_toks, Lexer.pushBracket_toks, Lexer.adv_toks]
    | dsimp only))

macro "shape_leaf" : tactic => `(tactic| (
  simp only [Step2, goto, stop, pure, Except.pure]
  first
    | trivial
    | (refine And.intro ?_ ?_
       · toks_ok
       · first | trivial | exact .inl rfl | exact .inr rfl | skip)
    | toks_ok))

theorem lexRoot_shape {l : Lexer} (ht : TL l.toks) : Step2 (lexRoot l) := by
  unfold lexRoot
  simp only [Lexer.next_eq]
  repeat' split
  all_goals shape_leaf

theorem index_wf {v l' : Lexer} (hs : v.start = v.pos) (ham : v.acceptMatch reIndex = some l') :
    TokWF ⟨.index, l'.slice l'.start l'.pos, l'.start⟩ := by
  obtain ⟨k, hk, rfl⟩ := Lexer.acceptMatch_iff ham
  refine ⟨fun _ => ?_, fun h => absurd h (show ¬ TokKind.index = .sqString by decide),
    fun h => absurd h (show ¬ TokKind.index = .dqString by decide)⟩
  show (Py.intOfText (Lexer.slice v v.start (v.pos + k))).isSome = true
  rw [hs, Lexer.slice_take]
  exact intOfText_reSignedDigits hk

theorem lexBracketed_shape {l : Lexer} (ht : TL l.toks) : Step2 (lexBracketed l) := by
  unfold lexBracketed
  simp only [Lexer.next_eq, bind, Except.bind]
  repeat' split
  all_goals shape_leaf
  rename_i v1 hws _ _ _ _ _ _ _ _ _ hpk _ v hb _ l' ham
  refine ⟨TL.emit_wf (index_wf ?_ ham) (by toks_ok), trivial⟩
  obtain ⟨_, rfl⟩ := Lexer.backup_ok_iff hb
  have h1 := (Lexer.ws_frame hws).2
  have h2 := Lexer.adv_pos_some hpk
  simp only [Lexer.adv_start, h2, h1]
  omega

theorem lexSegment_shape {l : Lexer} (ht : TL l.toks) : Step2 (lexSegment l) := by
  unfold lexSegment
  simp only [Lexer.next_eq, bind, Except.bind]
  repeat' split
  all_goals shape_leaf

theorem lexDescendant_shape {l : Lexer} (ht : TL l.toks) : Step2 (lexDescendant l) := by
  unfold lexDescendant
  simp only [Lexer.next_eq, bind, Except.bind]
  repeat' split
  all_goals shape_leaf

theorem lexShorthand_shape {l : Lexer} (ht : TL l.toks) : Step2 (lexShorthand l) := by
  unfold lexShorthand
  simp only [Lexer.next_eq, bind, Except.bind]
  repeat' split
  all_goals shape_leaf

theorem lexFilterDefault_shape {l : Lexer} (ht : TL l.toks) : Step2 (lexFilterDefault l) := by
  unfold lexFilterDefault
  simp only [Lexer.next_eq]
  repeat' split
  all_goals shape_leaf

theorem lexFilter_shape {l : Lexer} (ht : TL l.toks) : Step2 (lexFilter l) := by
  unfold lexFilter
  simp only [Lexer.next_eq, bind, Except.bind]
  repeat' split
  all_goals first | (apply lexFilterDefault_shape; toks_ok; done) | shape_leaf

theorem StInv.retState (f : Bool) (l : Lexer) : StInv (retState f) l := by
  cases f <;> trivial

theorem lexStrStart_shape {l : Lexer} (q : Char) (f : Bool) (ht : TL l.toks) (hq : q = '\'' ∨ q = '"') :
    Step2 (lexStrStart q f l) := by
  unfold lexStrStart
  simp only [Lexer.next_eq]
  repeat' split
  all_goals shape_leaf
  · refine ⟨TL.emit_wf (TokWF.str hq ?_ _) ht, StInv.retState _ _⟩
    show Scanned q (l.ignore.slice l.pos l.pos)
    rw [Lexer.slice_self]; exact .nil
  · refine ⟨ht, hq, ?_⟩
    show Scanned q (l.ignore.slice l.pos l.pos)
    rw [Lexer.slice_self]; exact .nil

theorem lexStrLoop_shape {l : Lexer} (q : Char) (f : Bool) (ht : TL l.toks) (hq : q = '\'' ∨ q = '"')
    (hs : Scanned q (l.slice l.start l.pos)) (hle : l.start ≤ l.pos) :
    Step2 (lexStrLoop q f l) := by
  unfold lexStrLoop
  simp only [Lexer.next_eq, bind, Except.bind]
  repeat' split
  all_goals shape_leaf
  · rename_i ch hp1 hch _ p hp2 hesc
    refine ⟨ht, hq, ?_⟩
    subst hch
    have e1 := Lexer.adv_pos_some hp1
    rw [Lexer.slice_congr (l := l.adv) Lexer.adv_q, Lexer.adv_start, Lexer.adv_start,
      Lexer.adv_pos_some hp2, Lexer.slice_snoc hp2 (by omega), Lexer.slice_congr (l := l) Lexer.adv_q, e1,
      Lexer.slice_snoc hp1 hle]
    exact hs.snoc_esc hesc
  · rename_i ch hp1 h1 h2 _ v hb
    refine ⟨TL.emit_wf (TokWF.str hq ?_ _) (by toks_ok), StInv.retState _ _⟩
    obtain ⟨_, rfl⟩ := Lexer.backup_ok_iff hb
    show Scanned q (Lexer.slice l.adv l.adv.start (l.adv.pos - 1))
    rw [Lexer.slice_congr Lexer.adv_q, Lexer.adv_start, Lexer.adv_pos_some hp1]
    simpa using hs
  · rename_i ch hp1 h1 h2
    refine ⟨ht, hq, ?_⟩
    rw [Lexer.slice_congr Lexer.adv_q, Lexer.adv_start, Lexer.adv_pos_some hp1, Lexer.slice_snoc hp1 hle]
    exact hs.snoc_plain h1 h2

theorem step_shape {n : Nat} {l : Lexer} (s : LState) (h : Lexer.Inv n l) (ht : TL l.toks) (hs : StInv s l) :
    Step2 (step s l) := by
  cases s with
  | root => exact lexRoot_shape ht
  | segment => exact lexSegment_shape ht
  | descendant => exact lexDescendant_shape ht
  | shorthand => exact lexShorthand_shape ht
  | bracketed => exact lexBracketed_shape ht
  | filter => exact lexFilter_shape ht
  | strStart q f => exact lexStrStart_shape q f ht hs
  | strLoop q f => exact lexStrLoop_shape q f ht hs.1 hs.2 h.start_le

theorem run_shape {n : Nat} : ∀ (fuel : Nat) (s : LState) (l : Lexer), Lexer.Inv n l → TL l.toks → StInv s l →
    match run fuel s l with
    | .ok l' => TL l'.toks
    | .error _ => True := by
  intro fuel
  induction fuel with
  | zero => intro s l _ _ _; simp [run]
  | succ fuel ih =>
    intro s l h ht hst
    have hs := step_ok s h
    have h2 := step_shape s h ht hst
    cases he : step s l with
    | error e => simp only [run, he]
    | ok x =>
      obtain ⟨l', st⟩ := x
      rw [he] at hs h2
      cases st with
      | none => simp only [run, he]; exact h2
      | some s' => simp only [run, he]; exact ih s' l' hs.1 h2.1 h2.2

/-- every token `tokenize` returns is well-shaped -/
theorem tokenize_wf (s : Str) (toks : List Token) (h : tokenize s = .ok toks) : ∀ t ∈ toks, TokWF t := by
  have hr := run_shape (lexFuel s.length) .root _ (Lexer.Inv.init s) (by intro t ht; cases ht) trivial
  unfold tokenize at h
  cases hrun : run (lexFuel s.length) .root { q := s.toArray } with
  | error e => rw [hrun] at h; cases h
  | ok l =>
    rw [hrun] at hr h
    simp only [bind, Except.bind, throw, throwThe, MonadExceptOf.throw, pure, Except.pure] at h
    have key : toks = l.toks.reverse := by
      repeat' split at h
      all_goals first | (cases h; done) | (cases h; rfl)
    subst key
    intro t ht
    exact hr t (List.mem_reverse.mp ht)

end JPV.Impl
