/-
`Proofs.Cf.CompleteKw` — PARSER COMPLETENESS for the whole RFC 9535 language, for every environment whose
registered function names do not begin with a keyword literal (`true`, `false`, `null`).
(`Cf.compile_complete_refuted` shows that the hypothesis cannot be dropped.)
-/
import JPV.Proofs.Cf.LexTop
import JPV.Proofs.Cf.ParseTop
import JPV.Proofs.Cf.Mono
import JPV.Proofs.Cf.NoKw
import JPV.Proofs.ParseFuel
namespace JPV.Proofs
open JPV JPV.Impl

theorem compile_complete_kwfree (env : Env) (hkw : Cf.KwFree env) (s : Str) (c : List Spec.CSegment)
    (hj : Spec.judge (sigsOfEnv' env) env.minIdx env.maxIdx s = (.valid, some c)) :
    Impl.compile env s = .ok (Spec.abstractSegs c) := by
  -- unpack the judge
  have hpv : Spec.parseQuery s = .valid c ∧
      (Spec.cSegs (sigsOfEnv' env) env.minIdx env.maxIdx c).1 = true := by
    unfold Spec.judge at hj
    split at hj
    · cases hj
    · rename_i q hq
      simp only [Prod.mk.injEq, Option.some.injEq] at hj
      obtain ⟨h1, rfl⟩ := hj
      refine ⟨hq, ?_⟩
      cases hr : (Spec.cSegs (sigsOfEnv' env) env.minIdx env.maxIdx q).1 with
      | true => rfl
      | false => simp [hr] at h1
    · rename_i q hq
      simp only [Prod.mk.injEq, Option.some.injEq] at hj
      obtain ⟨h1, rfl⟩ := hj
      split at h1 <;> cases h1
  obtain ⟨hp, hv⟩ := hpv
  have hnk := Cf.nk_segs env hkw env.minIdx env.maxIdx c hv
  obtain ⟨ts, k0, ke, hsh, htok⟩ := Cf.tokenize_full s c hp hnk
  obtain ⟨F0, hF0⟩ := Cf.parse_top_full env hsh hv ⟨.root, ['$'], k0⟩ ⟨.eof, [], ke⟩ rfl rfl
  unfold Impl.compile
  rw [htok]
  simp only
  generalize htoks : (⟨.root, ['$'], k0⟩ :: (ts ++ [⟨.eof, [], ke⟩]) : List Token) = toks at *
  -- the result with the implementation's fuel is not a fuel error, so it is the result with large fuel
  have hbig := hF0 (max F0 (parseFuel toks.length)) (Nat.le_max_left _ _)
  have hl : ∃ t, toks.getLast? = some t ∧ t.kind = .eof := by
    subst htoks
    refine ⟨⟨.eof, [], ke⟩, ?_, rfl⟩
    rw [← List.cons_append, List.getLast?_append]
    rfl
  cases hr : (exec (parseTop env (parseFuel toks.length)) (TStream.init toks)).1 with
  | ok q =>
    have := Cf.parseTop_mono env _ _ (Nat.le_max_right F0 _) _ _ hr (by intro e he; cases he)
    rw [hbig] at this
    exact hr.trans this.symm ▸ rfl
  | error e =>
    have hnf : e.kind ≠ .fuel := parseTop_no_fuel env toks hl e hr
    have := Cf.parseTop_mono env _ _ (Nat.le_max_right F0 _) _ _ hr
      (by intro e' he'; cases he'; exact hnf)
    rw [hbig] at this
    cases this

/-- a decidable sufficient condition for `Cf.KwFree`: no entry of the registry has a keyword-prefixed name -/
def kwFreeB (env : Env) : Bool := env.funcs.all (fun p => !Cf.kwName p.1)

theorem kwFree_of_b (env : Env) (h : kwFreeB env = true) : Cf.KwFree env := by
  intro n hn
  unfold Env.func at hn
  cases hf : env.funcs.find? (fun p => p.1 = n) with
  | none => simp [hf] at hn
  | some p =>
    have hm := List.mem_of_find?_eq_some hf
    have hp := List.find?_some hf
    simp only [decide_eq_true_eq] at hp
    have := List.all_eq_true.mp h p hm
    rw [← hp]
    simpa using this

/-- the default environment (no function extensions) and the environment of the three built-in
functions `length`, `count`, `value` are keyword-free -/
theorem kwFree_default : Cf.KwFree {} := kwFree_of_b _ rfl

theorem kwFree_builtin (env : Env)
    (h : env.funcs.map Prod.fst = ["length".toList, "count".toList, "value".toList]) : Cf.KwFree env := by
  apply kwFree_of_b
  unfold kwFreeB
  have : env.funcs.all (fun p => !Cf.kwName p.1) = (env.funcs.map Prod.fst).all (fun n => !Cf.kwName n) := by
    rw [List.all_map]; rfl
  rw [this, h]
  decide

end JPV.Proofs
