import JPV.Impl.Graph
namespace JPV.Proofs
open JPV JPV.Impl JPV.Impl.G

/-! ### unfolding equations -/

theorem g_visit_zero (h : Heap) (loc : Loc) (n : Nat) :
    visit h 0 loc n = ([], some .recursion) := by
  rw [G.visit]

theorem g_visit_succ (h : Heap) (rem : Nat) (loc : Loc) (n : Nat) :
    visit h (rem + 1) loc n =
      ((loc, n) :: (visitKids h rem loc (h.kids n)).1, (visitKids h rem loc (h.kids n)).2) := by
  rw [G.visit]

theorem g_visitKids_nil (h : Heap) (rem : Nat) (loc : Loc) :
    visitKids h rem loc [] = ([], none) := by
  rw [visitKids]

theorem g_visitKids_cons (h : Heap) (rem : Nat) (loc : Loc) (k : Key) (c : Nat)
    (rest : List (Key × Nat)) :
    visitKids h rem loc ((k, c) :: rest) =
      Out.append (visit h rem (loc ++ [k]) c) (visitKids h rem loc rest) := by
  rw [visitKids]

theorem g_append_snd_none (a b : Out) (ha : a.2 = none) : (Out.append a b).2 = b.2 := by
  unfold Out.append
  rw [ha]

theorem g_append_snd_some (a b : Out) (e : ErrKind) (ha : a.2 = some e) :
    (Out.append a b).2 = some e := by
  unfold Out.append
  rw [ha]

theorem g_append_length (a b : Out) : (Out.append a b).1.length ≤ a.1.length + b.1.length := by
  unfold Out.append
  split
  · simp
  · simp

/-! ### outcomes -/

theorem g_visitKids_outcomes_of (h : Heap) (rem : Nat)
    (hv : ∀ loc n, (visit h rem loc n).2 = none ∨ (visit h rem loc n).2 = some .recursion)
    (loc : Loc) (ks : List (Key × Nat)) :
    (visitKids h rem loc ks).2 = none ∨ (visitKids h rem loc ks).2 = some .recursion := by
  induction ks with
  | nil => left; rw [g_visitKids_nil]
  | cons x rest ih =>
    obtain ⟨k, c⟩ := x
    rw [g_visitKids_cons]
    rcases hv (loc ++ [k]) c with h0 | h1
    · rw [g_append_snd_none _ _ h0]; exact ih
    · right; exact g_append_snd_some _ _ _ h1

/-- the traversal ends normally or in JSONPathRecursionError, nothing else -/
theorem g_visit_outcomes (h : Heap) (rem : Nat) (loc : Loc) (n : Nat) :
    (visit h rem loc n).2 = none ∨ (visit h rem loc n).2 = some .recursion := by
  induction rem generalizing loc n with
  | zero => right; rw [g_visit_zero]
  | succ rem ih =>
    rw [g_visit_succ]
    exact g_visitKids_outcomes_of h rem ih loc (h.kids n)

theorem g_visitKids_outcomes (h : Heap) (rem : Nat) (loc : Loc) (ks : List (Key × Nat)) :
    (visitKids h rem loc ks).2 = none ∨ (visitKids h rem loc ks).2 = some .recursion :=
  g_visitKids_outcomes_of h rem (g_visit_outcomes h rem) loc ks

/-! ### raises iff -/

theorem g_chain_succ_iff (h : Heap) (n k : Nat) :
    Chain h n (k + 1) ↔ ∃ key c, (key, c) ∈ h.kids n ∧ Chain h c k := by
  constructor
  · intro hc
    cases hc with
    | succ hm hk => exact ⟨_, _, hm, hk⟩
  · rintro ⟨key, c, hm, hk⟩
    exact Chain.succ hm hk

theorem g_visitKids_raises_of (h : Heap) (rem : Nat)
    (hv : ∀ loc n, (visit h rem loc n).2 = some .recursion ↔ Chain h n rem)
    (loc : Loc) (ks : List (Key × Nat)) :
    (visitKids h rem loc ks).2 = some .recursion ↔
      ∃ key c, (key, c) ∈ ks ∧ Chain h c rem := by
  induction ks with
  | nil =>
    rw [g_visitKids_nil]
    constructor
    · intro hh; cases hh
    · rintro ⟨_, _, hm, _⟩; cases hm
  | cons x rest ih =>
    obtain ⟨k, c⟩ := x
    rw [g_visitKids_cons]
    rcases g_visit_outcomes h rem (loc ++ [k]) c with h0 | h1
    · rw [g_append_snd_none _ _ h0, ih]
      have hnc : ¬ Chain h c rem := by
        intro hc
        have := (hv (loc ++ [k]) c).2 hc
        rw [h0] at this
        cases this
      constructor
      · rintro ⟨key, c', hm, hc⟩
        exact ⟨key, c', List.mem_cons_of_mem _ hm, hc⟩
      · rintro ⟨key, c', hm, hc⟩
        rcases List.mem_cons.1 hm with heq | hm'
        · cases heq
          exact absurd hc hnc
        · exact ⟨key, c', hm', hc⟩
    · rw [g_append_snd_some _ _ _ h1]
      constructor
      · intro _
        exact ⟨k, c, List.mem_cons_self, (hv _ _).1 h1⟩
      · intro _; rfl

/-- it raises exactly when some path from the start node enters `rem` containers or more -/
theorem g_visit_raises_iff (h : Heap) (rem : Nat) (loc : Loc) (n : Nat) :
    (visit h rem loc n).2 = some .recursion ↔ Chain h n rem := by
  induction rem generalizing loc n with
  | zero =>
    rw [g_visit_zero]
    exact ⟨fun _ => Chain.zero n, fun _ => rfl⟩
  | succ rem ih =>
    rw [g_visit_succ, g_chain_succ_iff]
    exact g_visitKids_raises_of h rem ih loc (h.kids n)

theorem g_visitKids_raises_iff (h : Heap) (rem : Nat) (loc : Loc) (ks : List (Key × Nat)) :
    (visitKids h rem loc ks).2 = some .recursion ↔
      ∃ key c, (key, c) ∈ ks ∧ Chain h c rem :=
  g_visitKids_raises_of h rem (g_visit_raises_iff h rem) loc ks

/-! ### cycles -/

theorem g_chain_down (h : Heap) (k : Nat) : ∀ n, Chain h n (k + 1) → Chain h n k := by
  induction k with
  | zero => intro n _; exact Chain.zero n
  | succ k ih =>
    intro n hc
    cases hc with
    | succ hm hk => exact Chain.succ hm (ih _ hk)

theorem g_reach_chain (h : Heap) {a b : Nat} (hr : Reach h a b) :
    ∀ k, Chain h b k → Chain h a (k + 1) := by
  induction hr with
  | one hm => intro k hc; exact Chain.succ hm hc
  | step hm _ ih =>
    intro k hc
    exact g_chain_down h (k + 1) _ (Chain.succ hm (ih k hc))

theorem g_cycle_chain (h : Heap) (m : Nat) (hc : Reach h m m) : ∀ k, Chain h m k := by
  intro k
  induction k with
  | zero => exact Chain.zero m
  | succ k ih => exact g_reach_chain h hc k ih

/-- self-referential data: if the start node reaches a node that reaches itself (or is on a cycle itself),
the traversal raises JSONPathRecursionError for EVERY limit -/
theorem g_cycle_raises (h : Heap) (n m : Nat) (hnm : n = m ∨ Reach h n m) (hc : Reach h m m)
    (max : Int) : (visitTop h max n).2 = some .recursion := by
  unfold visitTop
  rw [g_visit_raises_iff]
  rcases hnm with rfl | hr
  · exact g_cycle_chain h _ hc _
  · exact g_chain_down h _ _ (g_reach_chain h hr _ (g_cycle_chain h m hc _))

/-! ### bounded work -/

theorem g_visitKids_bounded_of (h : Heap) (rem G : Nat)
    (hv : ∀ loc n, (visit h rem loc n).1.length ≤ G)
    (loc : Loc) (ks : List (Key × Nat)) :
    (visitKids h rem loc ks).1.length ≤ ks.length * G := by
  induction ks with
  | nil => rw [g_visitKids_nil]; simp
  | cons x rest ih =>
    obtain ⟨k, c⟩ := x
    rw [g_visitKids_cons]
    have h1 := g_append_length (visit h rem (loc ++ [k]) c) (visitKids h rem loc rest)
    have h2 := hv (loc ++ [k]) c
    rw [List.length_cons, Nat.succ_mul]
    omega

/-- bounded work ("bounded time", no hang, bounded memory): with fan-out at most `B`, at most
1 + B + … + B^(rem-1) nodes are produced, whatever the shape of the heap -/
theorem g_visit_bounded (h : Heap) (B : Nat) (hB : ∀ m, (h.kids m).length ≤ B)
    (rem : Nat) (loc : Loc) (n : Nat) : (visit h rem loc n).1.length ≤ geom B rem := by
  induction rem generalizing loc n with
  | zero => rw [g_visit_zero]; simp
  | succ rem ih =>
    rw [g_visit_succ]
    have h1 := g_visitKids_bounded_of h rem (geom B rem) ih loc (h.kids n)
    have h2 := Nat.mul_le_mul_right (geom B rem) (hB n)
    simp only [List.length_cons, geom]
    omega

theorem g_visitKids_bounded (h : Heap) (B : Nat) (hB : ∀ m, (h.kids m).length ≤ B)
    (rem : Nat) (loc : Loc) (ks : List (Key × Nat)) :
    (visitKids h rem loc ks).1.length ≤ ks.length * geom B rem :=
  g_visitKids_bounded_of h rem _ (g_visit_bounded h B hB rem) loc ks

end JPV.Proofs
